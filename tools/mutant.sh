#!/bin/bash
# mutant.sh <repo-relative file> <python-regex> <replacement> <prop> [unit-substring]
# Applies one textual change to a scratch copy of one source file (never to /repo), runs the property's check with
# the copy as a build overlay and prints the verdict. Used to test that contracts notice realistic changes.
set -u
. /verif/env.sh
f=$1; pat=$2; rep=$3; prop=$4; unit=${5:-}
tmp=$(mktemp -d /tmp/mutant.XXXXXX)
python3 - "$f" "$pat" "$rep" "$tmp" <<'E'
import re,sys,json
f,pat,rep,tmp=sys.argv[1:5]
s=open('/repo/'+f).read()
n=len(re.findall(pat,s,flags=re.M))
if n!=1:
    print("mutant: pattern matches %d times (need exactly 1)"%n); sys.exit(3)
s2=re.sub(pat,rep,s,count=1,flags=re.M)
open(tmp+'/m.go','w').write(s2)
json.dump({'/repo/'+f: tmp+'/m.go'}, open(tmp+'/ov.json','w'))
E
rc=$?
if [ $rc -ne 0 ]; then rm -rf "$tmp"; exit $rc; fi
(cd /repo && go build -overlay "$tmp/ov.json" ./... 2>&1 | head -5)
args=(-prop "$prop" -no-evidence -overlay "$tmp/ov.json")
[ -n "$unit" ] && args+=(-unit "$unit")
/verif/bin/govc "${args[@]}" 2>&1 | grep -v "^  \(proved\|sat-ok\)" | tail -${TAILN:-8}
echo "exit=${PIPESTATUS[0]}"
rm -rf "$tmp"
