#!/usr/bin/env python3
# Regenerates /verif/MANIFEST.json from /verif/claims.json (claimed properties, level text) and properties.jsonl.
import json, subprocess, os
V = '/verif'
props = [json.loads(l) for l in open(f'{V}/properties.jsonl')]
claims = json.load(open(f'{V}/claims.json'))
hooks = subprocess.run(['git','-C','/repo','log','--format=%H %s'],capture_output=True,text=True).stdout.splitlines()
hook_commits = [l.split()[0] for l in hooks if ' verif hook' in l or 'uncommitted hook changes' in l]
checks = []
na = []
for p in props:
    pid = p['id']
    c = claims.get('claimed', {}).get(pid)
    if c:
        checks.append({
            "property_id": pid,
            "quick_cmd": f"./check {pid} quick",
            "thorough_cmd": f"./check {pid} thorough",
            "evidence_file": f"/verif/evidence/{pid}.json",
            "replay_cmd_template": f"./check {pid} --replay {{path}}",
            "engine": "govc",
            "level_claimed": {"category": "proof", "text": c['text'], "design_ref": c.get('design_ref', 'DESIGN.md §3 ' + pid)},
            "level_note": c['note'],
            "technique": c.get('technique', "contract-based deductive verification: weakest-precondition VCs generated from go/ssa of the real code, discharged by z3/cvc5"),
        })
    else:
        na.append({"property_id": pid, "reason": claims.get('not_applicable', {}).get(pid, "not built (contracts for this property were not brought to a stable, fully discharged state in the time available; see DESIGN.md)")})
m = {
 "version": 1,
 "setup_cmd": "./setup.sh",
 "hooks": {"guard": "verif", "enable": "-tags verif (comment-only contract files zz_verif_contracts.go; nothing is compiled in)",
           "baseline_off_cmd": "cd /repo && PATH=/root/go/pkg/mod/golang.org/toolchain@v0.0.1-go1.25.0.linux-amd64/bin:$PATH GOTOOLCHAIN=local GOFLAGS=-mod=mod GOPROXY=off GOSUMDB=off go test -vet=off -count=1 -timeout 25m ./...",
           "source_commits": hook_commits, "add_only": True},
 "engines": [{"name": "govc", "path": "/verif/govc", "serves_properties": [c['property_id'] for c in checks],
              "kind_free_text": "contract verifier for Go written for this task: loads /repo with go/packages, builds go/ssa, reads //@ contracts from zz_verif_contracts.go (build tag verif), generates weakest-precondition verification conditions per function (bit-vector or integer mode, Burstall-Bornat heap, slices, maps, loop invariants, calls by contract, frames), discharges each obligation with z3 5.1 / z3 4.8 / cvc5"}],
 "checks": checks,
 "notes": claims.get('notes', ''),
 "not_applicable": na,
}
json.dump(m, open(f'{V}/MANIFEST.json','w'), indent=1)
print(len(checks), 'claimed;', len(na), 'not applicable')
