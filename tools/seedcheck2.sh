#!/bin/sh
# usage: seedcheck2.sh <seed-name> <property-id> <worktree> <pkgdir-of-demo>
# Like seedcheck.sh, but safe to run for several seeds at once: the worktree part (demo without/with the change,
# build, package tests) runs freely, the part that touches /repo (apply patch, ./check, revert) is serialised
# with a lock file.
. /verif/env.sh
name="$1"; prop="$2"; wt="$3"; pkg="$4"
out=/verif/seeded/$name; mkdir -p $out
cp $wt/seeded_out/patch.diff $out/patch.diff
cp $wt/seeded_out/seeded_demo_test.go $out/ 2>/dev/null
cp $wt/seeded_out/notes.txt $out/notes.txt 2>/dev/null
cd $wt || exit 2
git checkout -q -- . 2>/dev/null
cp $out/seeded_demo_test.go $wt/$pkg/seeded_demo_test.go
(cd $wt/$pkg && go test -vet=off -count=1 -timeout 5m -run TestSeededDemo . 2>&1 | tail -3) > $out/demo_without.txt
git apply $out/patch.diff || { echo "$name: patch does not apply in worktree"; exit 2; }
(cd $wt/$pkg && go test -vet=off -count=1 -timeout 5m -run TestSeededDemo . 2>&1 | tail -5) > $out/demo_with.txt
if [ -z "$SKIP_PKG_TESTS" ]; then
(cd $wt && go build ./... && cd $wt/$pkg && go test -vet=off -count=1 -timeout 15m -p 4 -skip TestSeededDemo . 2>&1 | grep -a '^--- FAIL\|^FAIL\|^ok\|^panic' | tail -8) > $out/tests_with.txt
fi
(
flock 9
cd /repo && git apply $out/patch.diff || { echo "$name: patch does not apply to /repo"; exit 2; }
cp /verif/evidence/$prop.json /tmp/evidence-$prop.bak 2>/dev/null
(cd /verif && ./check $prop quick > $out/check_output.txt 2>&1; echo "exit=$?" >> $out/check_output.txt)
cp /tmp/evidence-$prop.bak /verif/evidence/$prop.json 2>/dev/null; rm -f /tmp/evidence-$prop.bak
git -C /repo apply -R $out/patch.diff || echo "WARNING: $name: could not revert the patch in /repo"
) 9>/tmp/seedcheck.lock
echo "== $name: without: $(tail -1 $out/demo_without.txt | cut -c1-60) | with: $(grep -a -m1 'FAIL\|ok' $out/demo_with.txt | cut -c1-60) | tests: $(tr '\n' ' ' < $out/tests_with.txt | cut -c1-100)"
echo "   violations=$(grep -c VIOLATION $out/check_output.txt) $(grep 'exit=' $out/check_output.txt)"
grep "VIOLATION" $out/check_output.txt | cut -c1-260 | head -4
