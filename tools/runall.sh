#!/bin/sh
# runs every claimed quick check on the current tree and validates MANIFEST + evidence files
cd /verif || exit 2
rc=0
for id in $(python3 -c "import json;print(' '.join(c['property_id'] for c in json.load(open('MANIFEST.json'))['checks']))"); do
  s=$(date +%s); ./check $id quick > /tmp/runall-$id.log 2>&1; e=$?; t=$(( $(date +%s) - s ))
  echo "$id exit=$e ${t}s $(tail -1 /tmp/runall-$id.log | cut -c1-120)"
  [ $e -ne 0 ] && rc=1
done
python3-vt - <<'P'
import json,jsonschema
m=json.load(open('/verif/MANIFEST.json'))
jsonschema.validate(m,json.load(open('/root/.vp/MANIFEST.schema.json')))
es=json.load(open('/root/.vp/EVIDENCE.schema.json'))
for c in m['checks']:
    e=json.load(open(c['evidence_file'])); jsonschema.validate(e,es)
    assert e['coverage']['obligations']==e['coverage']['discharged'], c['property_id']
print('manifest+evidence valid')
P
exit $rc
