#!/bin/sh
# usage: seedcheck.sh <seed-name> <property-id> <worktree> <pkgdir-of-demo> [extra go test args]
# 1. confirms in the scratch worktree that the demo fails with the change and passes without it
# 2. stores patch/demo/meta under /verif/seeded/<seed-name>/
# 3. applies the patch to /repo, runs ./check <property>, reverts /repo
. /verif/env.sh
name="$1"; prop="$2"; wt="$3"; pkg="$4"
out=/verif/seeded/$name; mkdir -p $out
cp $wt/seeded_out/patch.diff $out/patch.diff
cp $wt/seeded_out/seeded_demo_test.go $out/ 2>/dev/null
cp $wt/seeded_out/notes.txt $out/notes.txt 2>/dev/null
cd $wt || exit 2
git checkout -q -- . 2>/dev/null
cp $out/seeded_demo_test.go $wt/$pkg/seeded_demo_test.go
echo "== demo on original code (must pass)"
(cd $wt/$pkg && go test -vet=off -count=1 -timeout 5m -run TestSeededDemo . 2>&1 | tail -3) | tee $out/demo_without.txt
git apply $out/patch.diff || { echo "patch does not apply in worktree"; exit 2; }
echo "== demo with change (must fail)"
(cd $wt/$pkg && go test -vet=off -count=1 -timeout 5m -run TestSeededDemo . 2>&1 | tail -5) | tee $out/demo_with.txt
echo "== build + package tests with change (must pass)"
(cd $wt && go build ./... && cd $wt/$pkg && go test -vet=off -count=1 -timeout 10m -skip TestSeededDemo . 2>&1 | grep -a '^--- FAIL\|^FAIL\|^ok\|^panic' | tail -8) | tee $out/tests_with.txt
echo "== check on /repo with the patch"
cd /repo && git apply $out/patch.diff || { echo "patch does not apply to /repo"; exit 2; }
cp /verif/evidence/$prop.json /tmp/evidence-$prop.bak 2>/dev/null
(cd /verif && ./check $prop quick > $out/check_output.txt 2>&1; echo "exit=$?" >> $out/check_output.txt)
cp /tmp/evidence-$prop.bak /verif/evidence/$prop.json 2>/dev/null; rm -f /tmp/evidence-$prop.bak
git -C /repo apply -R $out/patch.diff || echo 'WARNING: could not revert the patch in /repo'
grep -c VIOLATION $out/check_output.txt; grep "VIOLATION\|exit=\|govc:" $out/check_output.txt | cut -c1-230 | head -6
