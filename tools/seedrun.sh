#!/bin/sh
# usage: seedrun.sh [name-substring]
# Must-fail regression corpus: applies every /verif/seeded/<name>/patch.diff to /repo in turn (git apply, then git
# apply -R), runs the property's quick check and reports whether a VIOLATION was raised. /repo must be clean of other
# uncommitted source changes; do not run other checks meanwhile. Exit 1 if any seeded change is missed.
. /verif/env.sh
missed=0
for d in /verif/seeded/*${1:-}*/; do
  name=$(basename $d)
  prop=$(python3 -c "import json,sys;print(json.load(open('$d/meta.json'))['property'])" 2>/dev/null)
  [ -z "$prop" ] && { echo "$name: no meta.json"; continue; }
  if ! git -C /repo apply --check $d/patch.diff 2>/dev/null; then echo "$name ($prop): patch no longer applies (code changed, e.g. by a fix) - skipped"; continue; fi
  git -C /repo apply $d/patch.diff
  cp /verif/evidence/$prop.json /tmp/evidence-$prop.bak 2>/dev/null
  out=$(cd /verif && ./check $prop quick 2>&1); rc=$?
  cp /tmp/evidence-$prop.bak /verif/evidence/$prop.json 2>/dev/null; rm -f /tmp/evidence-$prop.bak
  git -C /repo apply -R $d/patch.diff || echo "WARNING: could not revert $name"
  n=$(echo "$out" | grep -c '^VIOLATION')
  if [ $rc -eq 1 ] && [ $n -gt 0 ]; then echo "$name ($prop): DETECTED ($n violations)"; else echo "$name ($prop): MISSED (exit=$rc)"; missed=1; fi
done
exit $missed
