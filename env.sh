# offline Go 1.25 toolchain for /repo and /verif/govc
export PATH=/root/go/pkg/mod/golang.org/toolchain@v0.0.1-go1.25.0.linux-amd64/bin:$PATH
export GOTOOLCHAIN=local GOFLAGS=-mod=mod GOPROXY=off GOSUMDB=off
