#!/bin/sh
# builds /verif/bin/govc offline (x/tools v0.29.0 from the module cache; go 1.25 cached toolchain)
cd "$(dirname "$0")" || exit 2
. ./env.sh
mkdir -p bin
cd govc && cp -f /repo/go.sum go.sum.repo 2>/dev/null
go build -o ../bin/govc . 
