package main

import (
	"fmt"
	"go/ast"
	"go/token"
	"go/types"
	"math/big"
	"regexp"
	"sort"
	"strings"

	"golang.org/x/tools/go/ssa"
)

type evKind int

const (
	evDecl evKind = iota
	evAssert
	evOblig
)

type Event struct {
	K    evKind
	Text string
	Ob   *Oblig
}

type Oblig struct {
	Unit        string // function (or lemma) name incl. package
	Name        string // stable name within unit
	Kind        string // post, pre-sat, bounds, nil, inv-init, inv-preserve, call-pre, overflow, frame, panic, div, assert-type, lemma, cover
	Guard       string // reachability condition
	Goal        string
	Desc        string
	Pos         string
	Contractual bool
	ExpectSat   bool // vacuity guards: obligation is "the query must be SAT"
	evIndex     int
	Watch       []WatchTerm // terms to evaluate in a counter-model
	Props       []string
}

type WatchTerm struct {
	Label string
	Term  string
}

type Heap struct {
	m map[string]string
}

func (h *Heap) clone() *Heap {
	n := &Heap{m: make(map[string]string, len(h.m))}
	for k, v := range h.m {
		n.m[k] = v
	}
	return n
}

type closureInfo struct {
	fn       *ssa.Function
	bindings []Val
}

// genMerge: a control-flow merge of heaps at least one of which was havocked as a whole.
type genMerge struct {
	heaps []*Heap
	conds []string
}

type Gen struct {
	entryAcq map[string]bool // acquisition bits whose entry value (false) has been stated
	cellGhosts map[string]types.Type // scalar expression ghosts kept in the symbolic state (heap "ghost:<name>")
	localAllocs []localAlloc // non-escaping local variables (exempt from the havoc of unknown callees)
	keySorts map[string]string // datatype declarations of struct map-key sorts (see structKeySort)
	uncontracted []string // callees without contract met while executing (over-approximated)
	freeVars map[string]Val // closures: captured variables by name (value = address of the variable)
	w    *World
	fn   *ssa.Function
	fc   *FuncContract
	pc   *PkgContracts
	mode string
	unit string

	events    []Event
	nfresh    int
	heapSorts map[string]string
	declared  map[string]bool
	strConsts map[string]string
	strOrder  []string
	typeTags  map[string]int

	vals     map[ssa.Value]Val
	closures map[ssa.Value]*closureInfo
	reach    map[*ssa.BasicBlock]string
	endHeap  map[*ssa.BasicBlock]*Heap
	heap     *Heap // current
	heap0    *Heap // entry (empty map == initial heaps)
	curBlock *ssa.BasicBlock
	curReach string

	params     map[string]Val
	namedLocal map[string][]*ssa.DebugRef
	obNames    map[string]int
	assumptions []string // textual list of unchecked assumptions used
	callCount  map[string]int
	sitesSeen  map[string]bool // contract anchors (callsite / ghost) that matched a call of the function
	siteOrd    map[ssa.Instruction]int // call instruction -> ordinal among the calls to its callee, in source order
	loopOfHeader map[*ssa.BasicBlock]*loopInfo
	retCount   int
	watch      []WatchTerm
	havocAll   int
	axiomsDone bool
	defers     []*ssa.Defer
	usedUFuns  map[string]bool
	inQuant    int
	modLocs    []modLoc
	modAllFresh bool
	startHeap  map[*ssa.BasicBlock]*Heap
	rangeOver  map[*ssa.Range]ssa.Value
	nilProved  map[string][]*ssa.BasicBlock
	globals    []string
	owned      []string // references obtained from a pool in this activation (owned by it)
	curIdx     int      // index in curBlock of the instruction being executed
	needGomod      bool
	regionLoop     *loopInfo // non-nil: only this loop is being verified (RunRegion)
	genAlloc       map[string]string // havoc generation -> allocation counter at that point
	genMerges      map[string]*genMerge // merge generation -> incoming heaps and edge conditions
	pendingAsserts []Clause
	pendingGhosts  []Clause
	pendingGhostRes map[string]Val // ghost name -> value returned by the call the ghost is anchored at
	ghostVals      map[string]Val
	ghostDefs      []ghostDef
	assertsSeen    map[string]bool
	leafT      map[string]types.Type // heap name -> Go type of a cell
	leafDepth  map[string]int        // heap name -> number of indices down to a cell
	leafKeySort map[string]string    // map value heaps: sort of the key index
}

type localAlloc struct {
	ref string
	t   types.Type
}

type ghostDef struct {
	name  string
	block *ssa.BasicBlock
	val   Val
	pre   bool // placeholder bound before execution (prebindGhosts): any real binding takes precedence
}

type loopInfo struct {
	header  *ssa.BasicBlock
	ordinal int
	blocks  map[*ssa.BasicBlock]bool
	spec    *LoopSpec
	backs   []*ssa.BasicBlock
	entryHeap *Heap
	// values of the phi nodes at entry, for decreases
}

func (g *Gen) emit(k evKind, text string) {
	g.events = append(g.events, Event{K: k, Text: text})
}

func (g *Gen) assume(guard, fact string) {
	if fact == "" || fact == "true" {
		return
	}
	g.emit(evAssert, "(assert "+implies(guard, fact)+")")
}

func (g *Gen) define(hint, sort, term string) string {
	// keep small terms inline
	if len(term) < 24 && !strings.Contains(term, "(") {
		return term
	}
	n := g.fresh(hint, sort)
	g.emit(evAssert, "(assert (= "+n+" "+term+"))")
	return n
}

func (g *Gen) oblig(kind, anchor, goal, desc string, pos token.Pos, contractual bool) *Oblig {
	if goal == "true" {
		// trivially true obligations are still counted (they are discharged by construction)
	}
	if g.fc != nil && g.fc.DataflowOnly != "" {
		switch kind {
		case "overflow":
			// signed overflow does not panic in Go, it wraps: nothing may be assumed about it. In `mode bv` the
			// wrapped value is what the rest of the unit sees (this is how an index computed as start+limit with a
			// huge limit is caught); in `mode int` arithmetic is mathematical, as everywhere in that mode.
			return &Oblig{Unit: g.unit, Name: kind + ":" + anchor, Kind: kind}
		case "bounds":
			if g.fc.CheckBounds {
				break // `dataflow-only check-bounds`: generated like in a fully verified unit
			}
			fallthrough
		case "nil", "div", "frame", "assert-type", "panic", "pool-put":
			// dataflow-only unit: safety of the unit itself is not claimed; the fact is assumed (executions that panic
			// are not considered)
			g.assume(g.curReach, goal)
			g.addAssumption("dataflow-only unit " + g.unit + ": no nil/bounds/overflow/frame obligations are generated for it and calls without contract are over-approximated; only the stated clauses are checked (" + g.fc.DataflowOnly + ")")
			return &Oblig{Unit: g.unit, Name: kind + ":" + anchor, Kind: kind}
		}
	}
	base := kind
	if anchor != "" {
		base += ":" + anchor
	}
	g.obNames[base]++
	name := base
	if n := g.obNames[base]; n > 1 {
		name = fmt.Sprintf("%s#%d", base, n)
	}
	ob := &Oblig{Unit: g.unit, Name: name, Kind: kind, Guard: g.curReach, Goal: goal, Desc: desc, Contractual: contractual}
	if pos.IsValid() {
		p := g.w.fset.Position(pos)
		ob.Pos = fmt.Sprintf("%s:%d", strings.TrimPrefix(p.Filename, "/repo/"), p.Line)
	}
	ob.Watch = append([]WatchTerm(nil), g.watch...)
	if g.fc != nil {
		ob.Props = g.fc.Props
	}
	ob.evIndex = len(g.events)
	g.events = append(g.events, Event{K: evOblig, Ob: ob})
	// after being checked, the fact may be assumed on this path
	g.assume(g.curReach, goal)
	return ob
}

// ---------- heap ----------

func (g *Gen) heapSort(leafSort string, nidx int) string {
	s := leafSort
	for i := nidx - 1; i >= 1; i-- {
		s = "(Array " + g.idxSort() + " " + s + ")"
	}
	return "(Array Int " + s + ")"
}

func (g *Gen) heapInit(name, sort string) string {
	if old, ok := g.heapSorts[name]; ok {
		if old != sort {
			panic(unsupported("heap %s used at two sorts: %s vs %s", name, old, sort))
		}
	} else {
		g.heapSorts[name] = sort
	}
	c := quote("H0:" + name)
	if !g.declared[c] {
		g.declared[c] = true
		g.emit(evDecl, fmt.Sprintf("(declare-const %s %s)", c, sort))
		g.heapRange(c, name)
	}
	return c
}

// freshHeap: an unconstrained new version of heap `name`.
func (g *Gen) freshHeap(hint, name, sort string) string {
	c := g.fresh(hint+name, sort)
	g.heapRange(c, name)
	return c
}

// heapRange: in int mode an unconstrained heap array of machine integers gets the axiom that every cell lies
// in the range of its Go type (needed where values are read under quantifiers, where no per-read fact exists).
func (g *Gen) heapRange(constName, heapName string) {
	t, ok := g.leafT[heapName]
	if !ok {
		return
	}
	depth := g.leafDepth[heapName]
	var lo, hi string
	if ii, ok := intInfoOf(t); ok {
		if g.mode != "int" {
			return
		}
		l, h := rangeOf(ii)
		lo, hi = intConstStr(l), intConstStr(h)
	} else if isRefLike(t) {
		// every reference stored in this version of the heap was allocated before the version came to be:
		// in particular nothing in the entry heap can alias an object allocated during the activation
		lo = "0"
		switch {
		case strings.HasPrefix(constName, "|H0:"):
			hi = g.allocTerm(g.heap0)
		case strings.HasPrefix(constName, "|Hg"):
			// a heap first mentioned after everything was havocked (generation g): its cells are as old as that point
			hi = g.allocTerm(g.heap)
			if i := strings.Index(constName, ":"); i > 3 {
				if a, ok := g.genAlloc[constName[3:i]]; ok {
					hi = a
				}
			}
		default:
			hi = g.allocTerm(g.heap)
		}
		if _, isIface := t.Underlying().(*types.Interface); isIface {
			lo = "(- 1000000)"
		}
	} else {
		return
	}
	idxS := "Int"
	if g.mode == "bv" {
		idxS = "(_ BitVec 64)"
	}
	var binders, idx []string
	for i := 0; i < depth; i++ {
		v := fmt.Sprintf("i%d", i)
		switch {
		case i == 0:
			binders = append(binders, "("+v+" Int)")
		case g.leafKeySort[heapName] != "":
			binders = append(binders, "("+v+" "+g.leafKeySort[heapName]+")")
		default:
			binders = append(binders, "("+v+" "+idxS+")")
		}
		idx = append(idx, v)
	}
	term := sel(constName, idx...)
	body := fmt.Sprintf("(and (<= %s %s) (<= %s %s))", lo, term, term, hi)
	if isRefLike(t) {
		// only cells of objects that exist in this heap version are constrained: the cells of objects allocated
		// later (by a callee, say) are described by whoever allocates them
		body = fmt.Sprintf("(=> (<= i0 %s) %s)", hi, body)
	}
	g.emit(evAssert, fmt.Sprintf("(assert (forall (%s) (! %s :pattern (%s) :qid hrange)))", strings.Join(binders, " "), body, term))
}

func (g *Gen) noteLeaf(heapName string, l Leaf, nidx int) {
	if _, ok := g.leafT[heapName]; ok {
		return
	}
	switch l.Part {
	case "":
		if at, ok := l.T.Underlying().(*types.Array); ok {
			g.leafT[heapName] = at.Elem()
			g.leafDepth[heapName] = nidx + 1
			return
		}
		g.leafT[heapName] = l.T
	case "off", "len", "cap":
		g.leafT[heapName] = intT
	case "arr":
		g.leafT[heapName] = types.Typ[types.UnsafePointer]
	default:
		return
	}
	g.leafDepth[heapName] = nidx
}

// noteLeafKey: like noteLeaf for the value heap of a map type (second index: the key, of sort ks).
func (g *Gen) noteLeafKey(heapName string, l Leaf, ks string) {
	if _, ok := g.leafT[heapName]; ok {
		return
	}
	g.noteLeaf(heapName, l, 2)
	if g.leafKeySort == nil {
		g.leafKeySort = map[string]string{}
	}
	g.leafKeySort[heapName] = ks
}

func isRefLike(t types.Type) bool {
	switch u := t.Underlying().(type) {
	case *types.Pointer, *types.Map, *types.Chan, *types.Signature, *types.Interface:
		return true
	case *types.Basic:
		return u.Kind() == types.UnsafePointer
	}
	return false
}

func (g *Gen) heapGet(h *Heap, name, sort string) string {
	if h.m == nil {
		return g.heapInit(name, sort)
	}
	if t, ok := h.m[name]; ok {
		if _, known := g.heapSorts[name]; !known {
			g.heapSorts[name] = sort
		}
		return t
	}
	if gen, ok := h.m["$gen"]; ok {
		// everything was havocked (generation gen) before this heap was first mentioned
		g.heapInit(name, sort)
		c := quote("Hg" + gen + ":" + name)
		if !g.declared[c] {
			g.declared[c] = true
			g.emit(evDecl, fmt.Sprintf("(declare-const %s %s)", c, sort))
			if gm := g.genMerges[gen]; gm != nil {
				// the generation stands for a control-flow merge of heaps of which at least one was havocked as a
				// whole: a heap first mentioned afterwards is the merge of what each incoming heap holds for it
				t := ""
				for i := len(gm.heaps) - 1; i >= 0; i-- {
					ti := g.heapGet(gm.heaps[i], name, sort)
					if t == "" {
						t = ti
					} else {
						t = ite(gm.conds[i], ti, t)
					}
				}
				g.emit(evAssert, "(assert (= "+c+" "+t+"))")
			} else {
				g.heapRange(c, name)
			}
		}
		return c
	}
	return g.heapInit(name, sort)
}

func (g *Gen) heapSet(h *Heap, name, sort, term string) {
	g.heapInit(name, sort)
	// name large terms
	if len(term) > 200 {
		n := g.fresh("H:"+name, sort)
		g.emit(evAssert, "(assert (= "+n+" "+term+"))")
		term = n
	}
	h.m[name] = term
}

func (g *Gen) load(h *Heap, p Ptr) Val {
	ls := g.leaves(p.T)
	var terms []string
	for _, l := range ls {
		hn := p.Prefix + l.Path
		g.noteLeaf(hn, l, len(p.Idx))
		ht := g.heapGet(h, hn, g.heapSort(l.Sort, len(p.Idx)))
		terms = append(terms, sel(ht, p.Idx...))
	}
	if len(ls) == 0 {
		return Val{K: kStruct, T: p.T}
	}
	v, _ := g.unflatten(p.T, terms)
	return v
}

func (g *Gen) store(h *Heap, p Ptr, v Val) {
	ls := g.leaves(p.T)
	terms := g.flatten(g.coerce(v, p.T))
	if len(terms) != len(ls) {
		panic(unsupported("store: %d leaves vs %d terms for %s", len(ls), len(terms), p.T))
	}
	for i, l := range ls {
		hn := p.Prefix + l.Path
		g.noteLeaf(hn, l, len(p.Idx))
		hs := g.heapSort(l.Sort, len(p.Idx))
		ht := g.heapGet(h, hn, hs)
		g.heapSet(h, hn, hs, storeN(ht, p.Idx, terms[i]))
	}
}

func (g *Gen) allocTerm(h *Heap) string {
	if h.m != nil {
		if t, ok := h.m["$alloc"]; ok {
			return t
		}
	}
	c := "|H0:$alloc|"
	if !g.declared[c] {
		g.declared[c] = true
		g.heapSorts["$alloc"] = "Int"
		g.emit(evDecl, "(declare-const "+c+" Int)")
		g.emit(evAssert, "(assert (> "+c+" 0))")
	}
	return c
}

// newRef allocates a fresh reference, distinct from everything allocated so far and from globals.
func (g *Gen) newRef(hint string) string {
	r := g.fresh(hint, "Int")
	g.assume("true", "(> "+r+" "+g.allocTerm(g.heap)+")")
	g.heap.m["$alloc"] = r
	return r
}

// ---------- type names ----------

// unaliasDeep replaces declared type aliases (type A = pkg.T) by the aliased type, also below pointers, slices,
// arrays, maps and channels: heap names are derived from type names, and one type must not get two heaps.
func unaliasDeep(t types.Type) types.Type {
	switch x := t.(type) {
	case *types.Alias:
		return unaliasDeep(types.Unalias(x))
	case *types.Pointer:
		if e := unaliasDeep(x.Elem()); e != x.Elem() {
			return types.NewPointer(e)
		}
	case *types.Slice:
		if e := unaliasDeep(x.Elem()); e != x.Elem() {
			return types.NewSlice(e)
		}
	case *types.Array:
		if e := unaliasDeep(x.Elem()); e != x.Elem() {
			return types.NewArray(e, x.Len())
		}
	case *types.Map:
		k, e := unaliasDeep(x.Key()), unaliasDeep(x.Elem())
		if k != x.Key() || e != x.Elem() {
			return types.NewMap(k, e)
		}
	case *types.Chan:
		if e := unaliasDeep(x.Elem()); e != x.Elem() {
			return types.NewChan(x.Dir(), e)
		}
	}
	return t
}

func (g *Gen) typeName(t types.Type) string {
	s := types.TypeString(unaliasDeep(t), func(p *types.Package) string { return p.Name() })
	// heap names are derived from type names: the predeclared aliases must not yield separate heaps
	if strings.Contains(s, "byte") || strings.Contains(s, "rune") || strings.Contains(s, "interface{}") {
		s = aliasByte.ReplaceAllString(s, "uint8")
		s = aliasRune.ReplaceAllString(s, "int32")
		s = strings.ReplaceAll(s, "interface{}", "any")
	}
	return s
}

var aliasByte = regexp.MustCompile(`\bbyte\b`)
var aliasRune = regexp.MustCompile(`\brune\b`)

func (g *Gen) ptrOf(v Val) Ptr {
	if v.K == kPtr {
		return *v.P
	}
	if v.K != kScalar {
		panic(unsupported("dereference of non-pointer value"))
	}
	pt, ok := v.T.Underlying().(*types.Pointer)
	if !ok {
		panic(unsupported("dereference of non-pointer type %s", v.T))
	}
	return g.ptrTo(v.S, pt.Elem())
}

func (g *Gen) ptrTo(ref string, elem types.Type) Ptr {
	if _, isStruct := elem.Underlying().(*types.Struct); isStruct {
		return Ptr{Prefix: g.typeName(elem), Idx: []string{ref}, T: elem}
	}
	if at, isArr := elem.Underlying().(*types.Array); isArr {
		// standalone arrays live in the element heap of []T, so that slicing them yields ordinary slices
		return Ptr{Prefix: "[]" + g.typeName(at.Elem()), Idx: []string{ref}, T: elem}
	}
	return Ptr{Prefix: "cell:" + g.typeName(elem), Idx: []string{ref}, T: elem}
}

// ---------- zero values, coercion ----------

func (g *Gen) zero(t types.Type) Val {
	switch u := t.Underlying().(type) {
	case *types.Slice:
		z := g.idxConst(0)
		return Val{K: kSlice, T: t, Arr: "0", Off: z, Len: z, Cap: z}
	case *types.Struct:
		v := Val{K: kStruct, T: t}
		for i := 0; i < u.NumFields(); i++ {
			v.Fs = append(v.Fs, g.zero(u.Field(i).Type()))
		}
		return v
	case *types.Tuple:
		v := Val{K: kStruct, T: t}
		for i := 0; i < u.Len(); i++ {
			v.Fs = append(v.Fs, g.zero(u.At(i).Type()))
		}
		return v
	case *types.Array:
		if isComposite(u.Elem()) {
			return Val{K: kStruct, T: t}
		}
		return sv(t, fmt.Sprintf("((as const %s) %s)", g.scalarSort(t), g.zero(u.Elem()).S))
	case *types.Basic:
		switch {
		case u.Info()&types.IsBoolean != 0:
			return sv(t, "false")
		case u.Info()&types.IsString != 0:
			return sv(t, g.strConst(""))
		case u.Info()&types.IsInteger != 0:
			return sv(t, g.intConst(big.NewInt(0), t))
		case u.Info()&(types.IsFloat|types.IsComplex) != 0:
			return sv(t, "flt0")
		}
	}
	return sv(t, "0")
}

func (g *Gen) coerce(v Val, t types.Type) Val {
	if v.K == kUntyped {
		if v.C != nil {
			if _, ok := intInfoOf(t); ok {
				return sv(t, g.intConst(v.C, t))
			}
			if isFloat(t) {
				return sv(t, g.fltConst(v.C.String()))
			}
			panic(unsupported("untyped integer constant used at type %s", t))
		}
		// untyped nil
		return g.zero(t)
	}
	if v.K == kScalar && v.T != nil && t != nil {
		// same underlying representation; retag
		v.T = t
	}
	return v
}

func (g *Gen) fltConst(s string) string {
	n := quote("flt:" + s)
	if !g.declared[n] {
		g.declared[n] = true
		g.emit(evDecl, "(declare-const "+n+" Flt)")
	}
	return n
}

// ---------- strings ----------

func (g *Gen) strConst(s string) string {
	if n, ok := g.strConsts[s]; ok {
		return n
	}
	n := quote(fmt.Sprintf("str%d:%s", len(g.strConsts), sanitize(s)))
	g.strConsts[s] = n
	g.emit(evDecl, "(declare-const "+n+" Str)")
	g.emit(evAssert, "(assert (= (slen "+n+") "+g.idxConst(int64(len(s)))+"))")
	if len(s) <= 64 {
		for i := 0; i < len(s); i++ {
			g.emit(evAssert, fmt.Sprintf("(assert (= (sat %s %s) %s))", n, g.idxConst(int64(i)), g.byteConst(s[i])))
		}
	}
	if s == "" {
		// the empty string is the unit of concatenation and the only string of length 0
		g.emit(evAssert, "(assert (forall ((x Str)) (! (= (scat "+n+" x) x) :pattern ((scat "+n+" x)) :qid scat_unit_l)))")
		g.emit(evAssert, "(assert (forall ((x Str)) (! (= (scat x "+n+") x) :pattern ((scat x "+n+")) :qid scat_unit_r)))")
		g.emit(evAssert, "(assert (forall ((x Str)) (! (=> (= (slen x) "+g.idxConst(0)+") (= x "+n+")) :pattern ((slen x)) :qid empty_unique)))")
	}
	for _, o := range g.strOrder {
		g.emit(evAssert, "(assert (not (= "+n+" "+g.strConsts[o]+")))")
	}
	g.strOrder = append(g.strOrder, s)
	return n
}

func (g *Gen) byteConst(b byte) string {
	if g.mode == "bv" {
		return bvConst(big.NewInt(int64(b)), 8)
	}
	return fmt.Sprint(int(b))
}

func (g *Gen) byteSort() string {
	if g.mode == "bv" {
		return "(_ BitVec 8)"
	}
	return "Int"
}

func sanitize(s string) string {
	var b strings.Builder
	for _, r := range s {
		if (r >= 'a' && r <= 'z') || (r >= 'A' && r <= 'Z') || (r >= '0' && r <= '9') || r == '_' || r == '-' || r == '.' || r == ':' {
			b.WriteRune(r)
		} else {
			fmt.Fprintf(&b, "~%x", r)
		}
		if b.Len() > 40 {
			break
		}
	}
	return b.String()
}

func (g *Gen) prelude(body string) string {
	var b strings.Builder
	idx := g.idxSort()
	b.WriteString("(declare-sort Str 0)\n(declare-sort Flt 0)\n(declare-const flt0 Flt)\n")
	fmt.Fprintf(&b, "(declare-fun slen (Str) %s)\n", idx)
	fmt.Fprintf(&b, "(declare-fun sat (Str %s) %s)\n", idx, g.byteSort())
	fmt.Fprintf(&b, "(declare-fun ssub (Str %s %s) Str)\n", idx, idx)
	b.WriteString("(declare-fun scat (Str Str) Str)\n")
	b.WriteString("(declare-fun dyntype (Int) Int)\n")
	b.WriteString("(declare-fun sdiff (Str Str) " + idx + ")\n")
	{
		var names []string
		for n := range g.keySorts {
			names = append(names, n)
		}
		sort.Strings(names)
		for _, n := range names {
			if strings.Contains(body, n) {
				b.WriteString(g.keySorts[n] + "\n")
			}
		}
	}
	uses := func(sym string) bool { return strings.Contains(body, "("+sym+" ") }
	// axioms are included only when the symbol they define occurs: quantifier-free queries get definite answers
	if g.mode == "bv" {
		if uses("slen") {
			b.WriteString("(assert (forall ((s Str)) (! (and (bvsge (slen s) (_ bv0 64)) (bvsle (slen s) (_ bv281474976710656 64))) :pattern ((slen s)))))\n")
		}
		if uses("ssub") {
			b.WriteString("(assert (forall ((s Str) (a (_ BitVec 64)) (b (_ BitVec 64))) (! (=> (and (bvsle (_ bv0 64) a) (bvsle a b) (bvsle b (slen s))) (= (slen (ssub s a b)) (bvsub b a))) :pattern ((ssub s a b)))))\n")
			b.WriteString("(assert (forall ((s Str) (a (_ BitVec 64)) (b (_ BitVec 64)) (i (_ BitVec 64))) (! (=> (and (bvsle (_ bv0 64) a) (bvsle a b) (bvsle b (slen s)) (bvsle (_ bv0 64) i) (bvslt i (bvsub b a))) (= (sat (ssub s a b) i) (sat s (bvadd a i)))) :pattern ((sat (ssub s a b) i)))))\n")
		}
		if uses("scat") {
			b.WriteString("(assert (forall ((s Str) (t Str)) (! (= (slen (scat s t)) (bvadd (slen s) (slen t))) :pattern ((scat s t)))))\n")
			b.WriteString("(assert (forall ((s Str) (t Str) (i (_ BitVec 64))) (! (= (sat (scat s t) i) (ite (bvslt i (slen s)) (sat s i) (sat t (bvsub i (slen s))))) :pattern ((sat (scat s t) i)))))\n")
		}
		if uses("sdiff") {
			b.WriteString("(assert (forall ((s Str) (t Str)) (! (or (= s t) (not (= (slen s) (slen t))) (and (bvsle (_ bv0 64) (sdiff s t)) (bvslt (sdiff s t) (slen s)) (not (= (sat s (sdiff s t)) (sat t (sdiff s t)))))) :pattern ((sdiff s t)))))\n")
		}
	} else {
		b.WriteString("(declare-fun ix (Int Int) Int)\n(declare-fun gomod (Int Int) Int)\n")
		if uses("ix") {
			b.WriteString("(assert (forall ((o Int) (i Int)) (! (= (ix o i) (+ o i)) :pattern ((ix o i)) :qid ix_ax)))\n")
		}
		if uses("slen") {
			// no string is longer than 2^56 bytes (far beyond any address space; makes len+1 overflow-free)
			b.WriteString("(assert (forall ((s Str)) (! (and (>= (slen s) 0) (<= (slen s) 72057594037927936)) :pattern ((slen s)))))\n")
		}
		if uses("sat") {
			b.WriteString("(assert (forall ((s Str) (i Int)) (! (and (<= 0 (sat s i)) (<= (sat s i) 255)) :pattern ((sat s i)))))\n")
		}
		if uses("ssub") {
			b.WriteString("(assert (forall ((s Str) (a Int) (b Int)) (! (=> (and (<= 0 a) (<= a b) (<= b (slen s))) (= (slen (ssub s a b)) (- b a))) :pattern ((ssub s a b)))))\n")
			b.WriteString("(assert (forall ((s Str) (a Int) (b Int) (i Int)) (! (=> (and (<= 0 a) (<= a b) (<= b (slen s)) (<= 0 i) (< i (- b a))) (= (sat (ssub s a b) i) (sat s (+ a i)))) :pattern ((sat (ssub s a b) i)) :qid ssub_at)))\n")
			// the same fact seen from the parent string: a byte of s inside [a,b) is a byte of the substring
			b.WriteString("(assert (forall ((s Str) (a Int) (b Int) (k Int)) (! (=> (and (<= 0 a) (<= a k) (< k b) (<= b (slen s))) (= (sat s k) (sat (ssub s a b) (- k a)))) :pattern ((ssub s a b) (sat s k)) :qid ssub_up)))\n")
			// substring of a substring
			b.WriteString("(assert (forall ((s Str) (a Int) (b Int) (c Int) (d Int)) (! (=> (and (<= 0 a) (<= a b) (<= b (slen s)) (<= 0 c) (<= c d) (<= d (- b a))) (= (ssub (ssub s a b) c d) (ssub s (+ a c) (+ a d)))) :pattern ((ssub (ssub s a b) c d)) :qid ssub_ssub)))\n")
			b.WriteString("(assert (forall ((s Str)) (! (= (ssub s 0 (slen s)) s) :pattern ((ssub s 0 (slen s))) :qid ssub_all)))\n")
		}
		if uses("scat") {
			b.WriteString("(assert (forall ((s Str) (t Str)) (! (= (slen (scat s t)) (+ (slen s) (slen t))) :pattern ((scat s t)))))\n")
			b.WriteString("(assert (forall ((s Str) (t Str) (i Int)) (! (= (sat (scat s t) i) (ite (< i (slen s)) (sat s i) (sat t (- i (slen s))))) :pattern ((sat (scat s t) i)))))\n")
		}
		if uses("sdiff") {
			// extensionality (skolemised): two different strings differ in length or at position sdiff
			b.WriteString("(assert (forall ((s Str) (t Str)) (! (or (= s t) (not (= (slen s) (slen t))) (and (<= 0 (sdiff s t)) (< (sdiff s t) (slen s)) (not (= (sat s (sdiff s t)) (sat t (sdiff s t)))))) :pattern ((sdiff s t)))))\n")
		}
	}
	return b.String()
}

// ---------- source text helpers ----------

func (g *Gen) srcText(pos token.Pos) string {
	if !pos.IsValid() {
		return ""
	}
	f := g.w.fileOf(pos)
	if f == nil {
		return ""
	}
	var best ast.Node
	ast.Inspect(f, func(n ast.Node) bool {
		if n == nil {
			return false
		}
		if n.Pos() <= pos && pos < n.End() {
			switch n.(type) {
			case *ast.IndexExpr, *ast.SliceExpr, *ast.BinaryExpr, *ast.CallExpr, *ast.SelectorExpr, *ast.StarExpr, *ast.TypeAssertExpr, *ast.UnaryExpr, *ast.RangeStmt, *ast.IncDecStmt, *ast.AssignStmt, *ast.CompositeLit:
				best = n
			}
			return true
		}
		return false
	})
	if best == nil {
		return ""
	}
	if r, ok := best.(*ast.RangeStmt); ok {
		return "range " + g.w.nodeText(r.X)
	}
	s := g.w.nodeText(best)
	if i := strings.IndexByte(s, '\n'); i >= 0 {
		s = s[:i]
	}
	if len(s) > 60 {
		s = s[:60]
	}
	return strings.Join(strings.Fields(s), "")
}

// ---------- loops ----------

func (g *Gen) findLoops() {
	fn := g.fn
	g.loopOfHeader = map[*ssa.BasicBlock]*loopInfo{}
	var headers []*ssa.BasicBlock
	for _, b := range fn.Blocks {
		for _, s := range b.Succs {
			if s.Dominates(b) {
				li := g.loopOfHeader[s]
				if li == nil {
					li = &loopInfo{header: s, blocks: map[*ssa.BasicBlock]bool{s: true}}
					g.loopOfHeader[s] = li
					headers = append(headers, s)
				}
				li.backs = append(li.backs, b)
				// natural loop: nodes reaching b without passing through s
				stack := []*ssa.BasicBlock{b}
				for len(stack) > 0 {
					x := stack[len(stack)-1]
					stack = stack[:len(stack)-1]
					if li.blocks[x] {
						continue
					}
					li.blocks[x] = true
					stack = append(stack, x.Preds...)
				}
			}
		}
	}
	// ordinals by source position of the header's first positioned instruction / loop statement
	sort.Slice(headers, func(i, j int) bool { return g.loopPos(headers[i]) < g.loopPos(headers[j]) })
	for i, h := range headers {
		li := g.loopOfHeader[h]
		li.ordinal = i + 1
		if g.fc != nil {
			li.spec = g.fc.Loops[li.ordinal]
		}
	}
}

func (g *Gen) loopPos(h *ssa.BasicBlock) token.Pos {
	li := g.loopOfHeader[h]
	best := token.Pos(1 << 40)
	for b := range li.blocks {
		for _, in := range b.Instrs {
			if p := in.Pos(); p.IsValid() && p < best {
				best = p
			}
		}
	}
	return best
}

// heaps (name -> sort) possibly written inside a set of blocks; second result true if everything may change.
func (g *Gen) writtenHeaps(blocks map[*ssa.BasicBlock]bool) (map[string]string, bool) {
	names := map[string]string{}
	all := false
	addLeaves := func(prefix string, t types.Type, nidx int) {
		for _, l := range g.leaves(t) {
			g.noteLeaf(prefix+l.Path, l, nidx)
			names[prefix+l.Path] = g.heapSort(l.Sort, nidx)
		}
	}
	for b := range blocks {
		for _, in := range b.Instrs {
			switch x := in.(type) {
			case *ssa.Store:
				pre, t, n := g.staticPrefix(x.Addr)
				addLeaves(pre, t, n)
			case *ssa.MapUpdate:
				mt := x.Map.Type().Underlying().(*types.Map)
				for n, s := range g.mapHeapSorts(mt) {
					names[n] = s
				}
			case *ssa.Alloc:
				names["$alloc"] = "Int"
				pt := x.Type().Underlying().(*types.Pointer).Elem()
				p := g.ptrTo("0", pt)
				if at, ok := pt.Underlying().(*types.Array); ok {
					addLeaves(p.Prefix, at.Elem(), 2)
				} else {
					addLeaves(p.Prefix, pt, 1)
				}
			case *ssa.MakeSlice:
				names["$alloc"] = "Int"
				et := x.Type().Underlying().(*types.Slice).Elem()
				addLeaves("[]"+g.typeName(et), et, 2)
			case *ssa.MakeMap:
				names["$alloc"] = "Int"
				for n, s := range g.mapHeapSorts(x.Type().Underlying().(*types.Map)) {
					names[n] = s
				}
			case *ssa.MakeClosure, *ssa.MakeInterface, *ssa.MakeChan, *ssa.Range:
				names["$alloc"] = "Int"
			case *ssa.Next:
				if r, ok := x.Iter.(*ssa.Range); ok {
					if mt, ok := r.X.Type().Underlying().(*types.Map); ok {
						names[g.rangeSeenName(r)] = "(Array " + g.scalarSort(mt.Key()) + " Bool)"
					}
				}
			case *ssa.Convert:
				if isByteSlice(x.Type()) {
					names["$alloc"] = "Int"
					names["[]uint8"] = g.heapSort(g.byteSort(), 2)
				}
			case ssa.CallInstruction:
				ns, a := g.calleeWrites(x)
				for n, s := range ns {
					names[n] = s
				}
				if a {
					all = true
				}
			}
		}
	}
	return names, all
}

// staticPrefix computes the heap prefix an address value refers to, from SSA structure and types alone.
// Third result: number of indices of the location.
func (g *Gen) staticPrefix(addr ssa.Value) (string, types.Type, int) {
	switch x := addr.(type) {
	case *ssa.FieldAddr:
		pre, t, n := g.staticPrefix(x.X)
		st := t.Underlying().(*types.Struct)
		f := st.Field(x.Field)
		return pre + "." + f.Name(), f.Type(), n
	case *ssa.IndexAddr:
		switch xt := x.X.Type().Underlying().(type) {
		case *types.Slice:
			return "[]" + g.typeName(xt.Elem()), xt.Elem(), 2
		case *types.Pointer:
			pre, t, n := g.staticPrefix(x.X)
			return pre, t.Underlying().(*types.Array).Elem(), n + 1
		}
	}
	pt, ok := addr.Type().Underlying().(*types.Pointer)
	if !ok {
		panic(unsupported("address of type %s", addr.Type()))
	}
	p := g.ptrTo("0", pt.Elem())
	return p.Prefix, pt.Elem(), 1
}

func (g *Gen) mapHeapNames(mt *types.Map) []string {
	base := "map:" + g.typeName(mt)
	names := []string{base + "#dom", base + "#len"}
	for _, l := range g.leaves(mt.Elem()) {
		names = append(names, base+"#val"+l.Path)
	}
	return names
}
