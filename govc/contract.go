package main

// Contract files: /repo/**/zz_verif_contracts.go, `//go:build verif`, comment-only.
// Every line of interest starts with `//@`. Grammar (one clause per line; a line whose first
// word is not a keyword continues the previous clause):
//
//   pred NAME(p T, ...) = EXPR                      macro, boolean
//   spec NAME(p T, ...) T = EXPR                    macro, any type
//   ufun NAME(p T, ...) T [reads H1, H2 ...]        uninterpreted function (heap arrays passed explicitly)
//   axiom NAME: EXPR                                assumed closed formula (listed in evidence)
//   lemma NAME: EXPR                                proved closed formula (obligation), then usable as axiom
//   func  (*T).M | F | F$1                          start of a function contract
//   extern func pkg.F(p T, ...) (T, ...)            contract of a function that is NOT verified (assumption)
//     props C12 C13
//     mode int|bv
//     requires EXPR
//     ensures EXPR
//     modifies LOC, LOC ...                         LOC = x.f | x.f[*] | s[*] | x.* | global NAME
//     loop N invariant EXPR
//     loop N modifies LOC, ...
//     loop N decreases EXPR
//     assume pure CALLEE, ...                       callee treated as side-effect free, result unconstrained
//     assume havoc CALLEE, ...                      callee may change anything reachable: all heaps havocked
//     assume no-overflow: REASON                    integer overflow obligations of this function are assumed
//     trusted REASON                                contract assumed, body not verified (listed)
//     ghost ...                                     reserved
//     allow-panic                                   panics are intended behaviour (no obligation)

import (
	"fmt"
	"os"
	"path/filepath"
	"regexp"
	"sort"
	"strings"
)

// siteEndRe: the last word of a call-site name (`...#N`).
var siteEndRe = regexp.MustCompile(`#\d+$`)

type Param struct {
	Name string
	Type string
}

type Macro struct {
	Name    string
	Params  []Param
	RetType string // "" for pred (bool)
	Body    Expr
	Src     string
}

type UFun struct {
	Name    string
	Params  []Param
	RetType string
	Reads   []string
}

type Axiom struct {
	Name  string
	Body  Expr
	Src   string
	Lemma bool
	Props []string
}

type Clause struct {
	Expr Expr
	Src  string
	Name string // optional label "name:" prefix
	Ret  int    // ensures only: restrict to the return statement with this ordinal (0 = all)
	Site string // assert only: call site after which the assertion stands
	Local bool  // ensures only: proved for the function but not assumed at its call sites
}

// CallSiteSpec: an assumed description of the effect of one particular call (callee without contract),
// written in the caller's vocabulary. Listed as an assumption in the evidence.
type CallSiteSpec struct {
	Modifies []string
	Ensures  []Clause
	Requires []Clause
	Closure  string
	Why      string
}

type LoopSpec struct {
	Invariants []Clause
	Modifies   []string
	Decreases  *Clause
	Steps      []Clause
}

type FuncContract struct {
	Name       string // "(*Queue).Add", "MergePublications", "MergePublications$1"
	Pkg        string // package path it was declared in (file's package dir import path)
	Extern     bool
	ExtParams  []Param
	ExtResults []string
	Props      []string
	Mode       string
	Requires   []Clause
	Ensures    []Clause
	Modifies   []string
	HasModifies bool
	Loops      map[int]*LoopSpec
	Pure       []string
	Havoc      []string
	NoOverflow string
	NoContent  []string // element types whose slice contents are not tracked on append ("[]string")
	Unescaped  []string // map types whose values never leave the function (exempt from the havoc of unknown callees)
	Trusted    string
	AllowPanic bool
	TrackLocks bool
	CheckBounds bool // dataflow-only unit that keeps its bounds obligations
	RelockHavoc []string // map types whose heaps become arbitrary when a mutex is re-acquired (track-locks relock-havoc)
	DataflowOnly string // non-empty: only contract-derived obligations are generated (no nil/bounds/overflow/frame/panic checks)
	Notes      []string
	CallSites  map[string]*CallSiteSpec
	Asserts    []Clause
	Allocates  []string
	Inherit    []string
	RegionLoops []int
	Unreachable []string
	Ghosts     []Clause
	File       string
	Line       int
}

type GhostField struct {
	Struct, Name, Type string
}

type PkgContracts struct {
	GhostFields []GhostField
	PkgDir  string // directory relative to /repo
	Macros  map[string]*Macro
	Pools   map[string]*Macro
	UFuns   map[string]*UFun
	Axioms  []*Axiom
	Funcs   map[string]*FuncContract
	Externs map[string]*FuncContract
	Order   []string
}

var clauseKeywords = map[string]bool{
	"pred": true, "spec": true, "pool": true, "ghostfield": true, "ufun": true, "axiom": true, "lemma": true, "func": true, "extern": true,
	"props": true, "mode": true, "requires": true, "ensures": true, "modifies": true, "loop": true,
	"assume": true, "trusted": true, "ghost": true, "allow-panic": true, "dataflow-only": true, "track-locks": true, "note": true, "callsite": true, "assert": true, "allocates": true, "unreachable": true, "inherit": true, "region": true,
}

func parseParams(s string) ([]Param, error) {
	s = strings.TrimSpace(s)
	if s == "" {
		return nil, nil
	}
	var ps []Param
	for _, part := range strings.Split(s, ",") {
		f := strings.Fields(part)
		if len(f) != 2 {
			return nil, fmt.Errorf("bad parameter %q", part)
		}
		ps = append(ps, Param{f[0], f[1]})
	}
	return ps, nil
}

// splitSig parses "NAME(params) RET" returning name, params text, rest
func splitSig(s string) (string, string, string, error) {
	i := strings.Index(s, "(")
	if i < 0 {
		return "", "", "", fmt.Errorf("expected '(' in %q", s)
	}
	if strings.HasPrefix(strings.TrimSpace(s), "(") {
		// method name "(recv).Name(params)": the parameter list starts at the second top-level '('
		if j := strings.Index(s, ")."); j > 0 {
			if k := strings.Index(s[j:], "("); k > 0 {
				i = j + k
			}
		}
	}
	depth := 0
	for j := i; j < len(s); j++ {
		if s[j] == '(' {
			depth++
		}
		if s[j] == ')' {
			depth--
			if depth == 0 {
				return strings.TrimSpace(s[:i]), s[i+1 : j], strings.TrimSpace(s[j+1:]), nil
			}
		}
	}
	return "", "", "", fmt.Errorf("unbalanced parens in %q", s)
}

func LoadContracts(repo string) (map[string]*PkgContracts, error) {
	res := map[string]*PkgContracts{}
	var files []string
	err := filepath.Walk(repo, func(p string, info os.FileInfo, err error) error {
		if err != nil {
			return nil
		}
		if info.IsDir() && (info.Name() == ".git" || info.Name() == "_examples") {
			return filepath.SkipDir
		}
		if !info.IsDir() && strings.HasPrefix(info.Name(), "zz_verif_contracts") && strings.HasSuffix(info.Name(), ".go") {
			files = append(files, p)
		}
		return nil
	})
	if err != nil {
		return nil, err
	}
	sort.Strings(files)
	for _, f := range files {
		dir, _ := filepath.Rel(repo, filepath.Dir(f))
		pc := res[dir]
		if pc == nil {
			pc = &PkgContracts{PkgDir: dir, Macros: map[string]*Macro{}, UFuns: map[string]*UFun{}, Funcs: map[string]*FuncContract{}, Externs: map[string]*FuncContract{}}
			res[dir] = pc
		}
		if err := parseContractFile(f, pc); err != nil {
			return nil, err
		}
	}
	for _, pc := range res {
		done := map[*FuncContract]bool{}
		var resolve func(fc *FuncContract) error
		resolve = func(fc *FuncContract) error {
			if done[fc] {
				return nil
			}
			done[fc] = true
			for _, spec := range fc.Inherit {
				from := spec
				if i := strings.Index(spec, " with "); i > 0 {
					from = strings.TrimSpace(spec[:i])
				}
				if src, ok := pc.Funcs[from]; ok {
					if err := resolve(src); err != nil {
						return err
					}
				}
			}
			return inheritInto(pc, fc)
		}
		for _, fc := range pc.Funcs {
			if err := resolve(fc); err != nil {
				return nil, err
			}
		}
	}
	return res, nil
}

func inheritInto(pc *PkgContracts, fc *FuncContract) error {
	{
		{
			for _, spec := range fc.Inherit {
				// inherit NAME [with x = EXPR]
				from := spec
				var subName string
				var subExpr Expr
				if i := strings.Index(spec, " with "); i > 0 {
					from = strings.TrimSpace(spec[:i])
					rest := spec[i+6:]
					j := strings.Index(rest, "=")
					if j < 0 {
						return fmt.Errorf("%s: inherit: expected `with x = EXPR`", fc.Name)
					}
					subName = strings.TrimSpace(rest[:j])
					e, err := ParseExpr(rest[j+1:])
					if err != nil {
						return fmt.Errorf("%s: inherit: %v", fc.Name, err)
					}
					subExpr = e
				}
				src, ok := pc.Funcs[from]
				if !ok {
					return fmt.Errorf("%s: inherit %s: no such contract", fc.Name, from)
				}
				sub := func(c Clause) Clause {
					if subExpr != nil {
						c.Expr = substExpr(c.Expr, subName, subExpr)
					}
					return c
				}
				for _, r := range src.Requires {
					fc.Requires = append(fc.Requires, sub(r))
				}
				for _, e := range src.Ensures {
					if e.Ret == 0 && !e.Local {
						fc.Ensures = append(fc.Ensures, sub(e))
					}
				}
				for _, m := range src.Modifies {
					if subExpr != nil {
						m = regexp.MustCompile(`\b`+regexp.QuoteMeta(subName)+`\b`).ReplaceAllString(m, subExpr.String())
					}
					fc.Modifies = append(fc.Modifies, m)
				}
				fc.HasModifies = fc.HasModifies || src.HasModifies
			}
		}
	}
	return nil
}

func parseContractFile(path string, pc *PkgContracts) error {
	data, err := os.ReadFile(path)
	if err != nil {
		return err
	}
	type rawClause struct {
		kw   string
		text string
		line int
	}
	var clauses []rawClause
	for ln, line := range strings.Split(string(data), "\n") {
		t := strings.TrimSpace(line)
		if !strings.HasPrefix(t, "//@") {
			continue
		}
		t = strings.TrimSpace(strings.TrimPrefix(t, "//@"))
		if t == "" || strings.HasPrefix(t, "--") {
			continue
		}
		// strip trailing comment " -- ..."
		if i := strings.Index(t, " -- "); i >= 0 {
			t = strings.TrimSpace(t[:i])
		}
		first := t
		if i := strings.IndexAny(t, " \t"); i >= 0 {
			first = t[:i]
		}
		if clauseKeywords[first] {
			clauses = append(clauses, rawClause{first, strings.TrimSpace(t[len(first):]), ln + 1})
		} else {
			if len(clauses) == 0 {
				return fmt.Errorf("%s:%d: continuation without clause", path, ln+1)
			}
			clauses[len(clauses)-1].text += " " + t
		}
	}
	var cur *FuncContract
	fail := func(c rawClause, f string, a ...any) error {
		return fmt.Errorf("%s:%d: %s", path, c.line, fmt.Sprintf(f, a...))
	}
	mkClause := func(c rawClause, text string) (Clause, error) {
		name := ""
		// optional label "name: expr" where name is an identifier (no spaces) — avoid confusing with "::"
		if i := strings.Index(text, ":"); i > 0 && !strings.HasPrefix(text[i:], "::") && isIdentLike(text[:i]) {
			name = text[:i]
			text = strings.TrimSpace(text[i+1:])
		}
		e, err := ParseExpr(text)
		if err != nil {
			return Clause{}, fail(c, "%v", err)
		}
		return Clause{Expr: e, Src: text, Name: name}, nil
	}
	for _, c := range clauses {
		switch c.kw {
		case "pred", "spec", "pool":
			eq := strings.Index(c.text, "=")
			// find the '=' that is not part of ==, <=, >=, != and is at paren depth 0 after the signature
			_, _, _, err := splitSig(c.text)
			if err != nil {
				return fail(c, "%v", err)
			}
			depth := 0
			eq = -1
			for i := 0; i < len(c.text); i++ {
				switch c.text[i] {
				case '(':
					depth++
				case ')':
					depth--
				case '=':
					if depth == 0 && eq < 0 {
						eq = i
					}
				}
				if eq >= 0 {
					break
				}
			}
			if eq < 0 {
				return fail(c, "macro needs '= body'")
			}
			name, params, rest, err := splitSig(c.text[:eq])
			if err != nil {
				return fail(c, "%v", err)
			}
			ps, err := parseParams(params)
			if err != nil {
				return fail(c, "%v", err)
			}
			body, err := ParseExpr(c.text[eq+1:])
			if err != nil {
				return fail(c, "%v", err)
			}
			m := &Macro{Name: name, Params: ps, RetType: rest, Body: body, Src: c.text}
			if c.kw == "pred" || c.kw == "pool" {
				m.RetType = "bool"
			}
			if c.kw == "pool" {
				if pc.Pools == nil {
					pc.Pools = map[string]*Macro{}
				}
				pc.Pools[name] = m
			} else {
				pc.Macros[name] = m
			}
		case "ghostfield":
			// ghostfield pkg.Type name type : specification-only field of every object of that struct type
			f := strings.Fields(c.text)
			if len(f) != 3 {
				return fail(c, "ghostfield needs `pkg.Type name type`")
			}
			pc.GhostFields = append(pc.GhostFields, GhostField{Struct: f[0], Name: f[1], Type: f[2]})
		case "ufun":
			text := c.text
			var reads []string
			if i := strings.Index(text, " reads "); i >= 0 {
				for _, r := range strings.Split(text[i+7:], ",") {
					reads = append(reads, strings.TrimSpace(r))
				}
				text = text[:i]
			}
			name, params, rest, err := splitSig(text)
			if err != nil {
				return fail(c, "%v", err)
			}
			ps, err := parseParams(params)
			if err != nil {
				return fail(c, "%v", err)
			}
			pc.UFuns[name] = &UFun{Name: name, Params: ps, RetType: rest, Reads: reads}
		case "axiom", "lemma":
			i := strings.Index(c.text, ":")
			if i < 0 {
				return fail(c, "axiom needs 'name: formula'")
			}
			e, err := ParseExpr(c.text[i+1:])
			if err != nil {
				return fail(c, "%v", err)
			}
			pc.Axioms = append(pc.Axioms, &Axiom{Name: strings.TrimSpace(c.text[:i]), Body: e, Src: strings.TrimSpace(c.text[i+1:]), Lemma: c.kw == "lemma"})
		case "func":
			cur = &FuncContract{Name: strings.TrimSpace(c.text), Loops: map[int]*LoopSpec{}, File: path, Line: c.line, Pkg: pc.PkgDir}
			if _, dup := pc.Funcs[cur.Name]; dup {
				return fail(c, "duplicate contract for %s", cur.Name)
			}
			pc.Funcs[cur.Name] = cur
			pc.Order = append(pc.Order, cur.Name)
		case "extern":
			text := strings.TrimSpace(strings.TrimPrefix(c.text, "func"))
			name, params, rest, err := splitSig(text)
			if err != nil {
				return fail(c, "%v", err)
			}
			ps, err := parseParams(params)
			if err != nil {
				return fail(c, "%v", err)
			}
			cur = &FuncContract{Name: name, Extern: true, ExtParams: ps, Loops: map[int]*LoopSpec{}, File: path, Line: c.line, Pkg: pc.PkgDir}
			rest = strings.Trim(rest, "() ")
			if rest != "" {
				for _, r := range strings.Split(rest, ",") {
					cur.ExtResults = append(cur.ExtResults, strings.TrimSpace(r))
				}
			}
			pc.Externs[name] = cur
		default:
			if cur == nil {
				return fail(c, "clause %q outside a func", c.kw)
			}
			switch c.kw {
			case "props":
				cur.Props = append(cur.Props, strings.Fields(c.text)...)
			case "mode":
				cur.Mode = c.text
			case "requires":
				cl, err := mkClause(c, c.text)
				if err != nil {
					return err
				}
				cur.Requires = append(cur.Requires, cl)
			case "ensures":
				text := c.text
				ret := 0
				local := false
				if strings.HasPrefix(text, "@local ") {
					local = true
					text = strings.TrimSpace(strings.TrimPrefix(text, "@local"))
				}
				if strings.HasPrefix(text, "@ret") {
					// clause restricted to one return statement (by ordinal)
					f := strings.Fields(text)[0]
					fmt.Sscanf(f, "@ret%d", &ret)
					text = strings.TrimSpace(strings.TrimPrefix(text, f))
				}
				cl, err := mkClause(c, text)
				if err != nil {
					return err
				}
				cl.Ret = ret
				cl.Local = local
				cur.Ensures = append(cur.Ensures, cl)
			case "callsite":
				// callsite CALLEE#N (modifies LOCS | ensures EXPR | requires EXPR): assumed effect of one call
				f := strings.Fields(c.text)
				if len(f) < 3 {
					return fail(c, "bad callsite clause")
				}
				if cur.CallSites == nil {
					cur.CallSites = map[string]*CallSiteSpec{}
				}
				if f[0] == "invoke" || f[0] == "dynamic" || f[0] == "go" {
					// site names with spaces: `invoke T.M#1`, `dynamic FuncType#1`, `dynamic func([]uint8) error#1`:
					// the site extends to the first word ending in #N
					for k := 1; k < len(f)-1; k++ {
						if siteEndRe.MatchString(f[k]) {
							f = append([]string{strings.Join(f[:k+1], " ")}, f[k+1:]...)
							break
						}
					}
				}
				cs := cur.CallSites[f[0]]
				if cs == nil {
					cs = &CallSiteSpec{}
					cur.CallSites[f[0]] = cs
				}
				rest := strings.TrimSpace(strings.TrimPrefix(strings.TrimSpace(strings.TrimPrefix(c.text, f[0])), f[1]))
				switch f[1] {
				case "modifies":
					for _, m := range strings.Split(rest, ",") {
						if m = strings.TrimSpace(m); m != "" {
							cs.Modifies = append(cs.Modifies, m)
						}
					}
				case "ensures":
					cl, err := mkClause(c, rest)
					if err != nil {
						return err
					}
					cs.Ensures = append(cs.Ensures, cl)
				case "requires":
					cl, err := mkClause(c, rest)
					if err != nil {
						return err
					}
					cs.Requires = append(cs.Requires, cl)
				case "closure":
					cs.Closure = rest
				case "why":
					cs.Why = rest
				default:
					return fail(c, "bad callsite clause kind %q", f[1])
				}
			case "ghost":
				// ghost NAME after CALLEE#N = EXPR   -- names the value EXPR has right after that call; usable in
				// every clause evaluated later on paths through that call
				f := strings.Fields(c.text)
				eqi := strings.Index(c.text, "=")
				if len(f) < 5 || f[1] != "after" || eqi < 0 {
					return fail(c, "ghost needs `NAME after CALLEE#N = EXPR`")
				}
				e, err := ParseExpr(c.text[eqi+1:])
				if err != nil {
					return fail(c, "%v", err)
				}
				ai := strings.Index(c.text, " after ")
				site := strings.TrimSpace(c.text[ai+len(" after ") : eqi]) // may contain a space: `invoke T.M#1`
				cur.Ghosts = append(cur.Ghosts, Clause{Expr: e, Src: strings.TrimSpace(c.text[eqi+1:]), Name: f[0], Site: site})
			case "assert":
				// assert LABEL after CALLEE#N: EXPR    -- intermediate assertion (a cut): proved right after that call
				// (once its results have been assigned), then available to everything that follows
				f := strings.Fields(c.text)
				if len(f) < 4 || f[1] != "after" {
					return fail(c, "assert needs `LABEL after CALLEE#N: EXPR`")
				}
				sf := f[2]
				if sf == "invoke" || sf == "dynamic" {
					for k := 3; k < len(f); k++ {
						if siteEndRe.MatchString(strings.TrimSuffix(f[k], ":")) {
							sf = strings.Join(f[2:k+1], " ")
							break
						}
					}
				}
				site := strings.TrimSuffix(sf, ":")
				i := strings.Index(c.text, sf)
				rest := strings.TrimSpace(strings.TrimPrefix(strings.TrimSpace(c.text[i+len(sf):]), ":"))
				e, err := ParseExpr(rest)
				if err != nil {
					return fail(c, "%v", err)
				}
				cur.Asserts = append(cur.Asserts, Clause{Expr: e, Src: rest, Name: f[0], Site: site})
			case "region":
				// region loop N : only loop N of this function is verified, as a region (see Gen.RunRegion)
				f := strings.Fields(c.text)
				var n int
				if len(f) != 2 || f[0] != "loop" {
					return fail(c, "region needs `loop N`")
				}
				if _, err := fmt.Sscanf(f[1], "%d", &n); err != nil {
					return fail(c, "region: bad loop ordinal")
				}
				cur.RegionLoops = append(cur.RegionLoops, n)
			case "inherit":
				// inherit NAME : this function has the same requires / ensures / modifies as NAME (same parameter
				// names); used for thin wrappers (lock; call; unlock). Ret-specific and @local clauses are not inherited.
				cur.Inherit = append(cur.Inherit, strings.TrimSpace(c.text))
			case "unreachable":
				// unreachable retN, loopN : this point is dead under the precondition (proved: its cover query is unsat)
				for _, a := range strings.Split(c.text, ",") {
					if a = strings.TrimSpace(a); a != "" {
						cur.Unreachable = append(cur.Unreachable, a)
					}
				}
			case "allocates":
				// allocates result | result.N : the call returns a newly allocated object (struct pointer); all its
				// fields (and ghost fields) are unconstrained new cells, described by the ensures clauses
				for _, a := range strings.Split(c.text, ",") {
					if a = strings.TrimSpace(a); a != "" {
						cur.Allocates = append(cur.Allocates, a)
					}
				}
			case "modifies":
				cur.HasModifies = true
				for _, m := range strings.Split(c.text, ",") {
					if m = strings.TrimSpace(m); m != "" && m != "nothing" {
						cur.Modifies = append(cur.Modifies, m)
					}
				}
			case "loop":
				f := strings.Fields(c.text)
				if len(f) < 2 {
					return fail(c, "bad loop clause")
				}
				var n int
				if _, err := fmt.Sscanf(f[0], "%d", &n); err != nil {
					return fail(c, "bad loop ordinal %q", f[0])
				}
				ls := cur.Loops[n]
				if ls == nil {
					ls = &LoopSpec{}
					cur.Loops[n] = ls
				}
				rest := strings.TrimSpace(strings.TrimPrefix(strings.TrimSpace(strings.TrimPrefix(c.text, f[0])), f[1]))
				switch f[1] {
				case "invariant":
					cl, err := mkClause(c, rest)
					if err != nil {
						return err
					}
					ls.Invariants = append(ls.Invariants, cl)
				case "modifies":
					for _, m := range strings.Split(rest, ",") {
						if m = strings.TrimSpace(m); m != "" {
							ls.Modifies = append(ls.Modifies, m)
						}
					}
				case "step":
					// two-state property of one iteration: before(e) is e at the start of the iteration
					cl, err := mkClause(c, rest)
					if err != nil {
						return err
					}
					ls.Steps = append(ls.Steps, cl)
				case "decreases":
					cl, err := mkClause(c, rest)
					if err != nil {
						return err
					}
					ls.Decreases = &cl
				default:
					return fail(c, "bad loop clause kind %q", f[1])
				}
			case "assume":
				f := strings.Fields(c.text)
				if len(f) == 0 {
					return fail(c, "empty assume")
				}
				rest := strings.TrimSpace(strings.TrimPrefix(c.text, f[0]))
				switch strings.TrimSuffix(f[0], ":") {
				case "pure":
					for _, m := range strings.Split(rest, ",") {
						cur.Pure = append(cur.Pure, strings.TrimSpace(m))
					}
				case "havoc":
					for _, m := range strings.Split(rest, ",") {
						cur.Havoc = append(cur.Havoc, strings.TrimSpace(m))
					}
				case "no-overflow":
					cur.NoOverflow = rest
					if cur.NoOverflow == "" {
						cur.NoOverflow = "assumed"
					}
				case "no-content":
					// assume no-content []T : elements appended to slices of T are not tracked (lengths are); sound
					// (the contents become arbitrary), used where only the length of a slice matters
					for _, m := range strings.Split(rest, ",") {
						cur.NoContent = append(cur.NoContent, strings.TrimSpace(m))
					}
				case "unescaped":
					// assume unescaped map[K]V : maps of this type are created and used only inside this function
					// and never passed to a callee, so calls to code without contract do not change them (an
					// ASSUMPTION, listed in the evidence; true when the type is used for one local variable only)
					for _, m := range strings.Split(rest, ",") {
						if i := strings.Index(m, ": "); i >= 0 {
							m = m[:i]
						}
						cur.Unescaped = append(cur.Unescaped, strings.TrimSpace(m))
					}
				default:
					return fail(c, "unknown assume %q", f[0])
				}
			case "trusted":
				cur.Trusted = c.text
				if cur.Trusted == "" {
					cur.Trusted = "trusted"
				}
			case "dataflow-only":
				// dataflow-only REASON : the unit is too large/unstructured for a functional contract; only the clauses
				// written in the contract (callsite requires, asserts, ensures) are checked, on executions that do not
				// panic; calls without contract are over-approximated (havoc). Listed as an assumption.
				cur.DataflowOnly = c.text
				// `dataflow-only check-bounds REASON`: index / slice / make-length obligations ARE generated for this
				// unit (a panic on a computed index is exactly what is to be excluded), the other safety kinds are not
				if strings.HasPrefix(strings.TrimSpace(c.text), "check-bounds") {
					cur.CheckBounds = true
				}
				if cur.DataflowOnly == "" {
					cur.DataflowOnly = "only the stated clauses are checked"
				}
			case "track-locks":
				// track-locks : Lock/Unlock (sync.Mutex, sync.RWMutex) update a ghost "held" bit per mutex location in
				// this unit; clauses may use held(x.mu). Without it mutex operations are no-ops for the verifier.
				cur.TrackLocks = true
				// track-locks relock-havoc T1, T2 : interference at re-acquisition. When the unit takes a mutex that
				// it has taken (and released) before on the same path, everything another goroutine may have done
				// in between is modelled by giving the heaps of the listed (map) types arbitrary contents. The
				// first acquisition is not affected (the entry state is arbitrary anyway). What the unit knows
				// about guarded state from an earlier critical section is thereby forgotten - as it must be.
				if rest := strings.TrimSpace(c.text); strings.HasPrefix(rest, "relock-havoc ") {
					for _, m := range strings.Split(strings.TrimPrefix(rest, "relock-havoc "), ",") {
						cur.RelockHavoc = append(cur.RelockHavoc, strings.TrimSpace(m))
					}
				}
			case "allow-panic":
				cur.AllowPanic = true
			case "note":
				cur.Notes = append(cur.Notes, c.text)
			}
		}
	}
	return nil
}

// substExpr replaces free occurrences of identifier `name` in e by repl (bound variables of quantifiers shadow).
func substExpr(e Expr, name string, repl Expr) Expr {
	switch x := e.(type) {
	case *EIdent:
		if x.Name == name {
			return repl
		}
		return x
	case *ESel:
		return &ESel{substExpr(x.X, name, repl), x.Name}
	case *EIndex:
		return &EIndex{substExpr(x.X, name, repl), substExpr(x.I, name, repl)}
	case *ESlice:
		n := &ESlice{X: substExpr(x.X, name, repl)}
		if x.Lo != nil {
			n.Lo = substExpr(x.Lo, name, repl)
		}
		if x.Hi != nil {
			n.Hi = substExpr(x.Hi, name, repl)
		}
		return n
	case *ECall:
		n := &ECall{Fn: x.Fn}
		for _, a := range x.Args {
			n.Args = append(n.Args, substExpr(a, name, repl))
		}
		return n
	case *EUn:
		return &EUn{x.Op, substExpr(x.X, name, repl)}
	case *EBin:
		return &EBin{x.Op, substExpr(x.X, name, repl), substExpr(x.Y, name, repl)}
	case *EOld:
		return &EOld{substExpr(x.X, name, repl)}
	case *EQuant:
		for _, v := range x.Vars {
			if v.Name == name {
				return x
			}
		}
		n := &EQuant{Forall: x.Forall, Body: substExpr(x.Body, name, repl)}
		for _, v := range x.Vars {
			b := v
			if v.Lo != nil {
				b.Lo = substExpr(v.Lo, name, repl)
				b.Hi = substExpr(v.Hi, name, repl)
			}
			n.Vars = append(n.Vars, b)
		}
		for _, tr := range x.Triggers {
			var nt []Expr
			for _, t := range tr {
				nt = append(nt, substExpr(t, name, repl))
			}
			n.Triggers = append(n.Triggers, nt)
		}
		return n
	}
	return e
}

func isIdentLike(s string) bool {
	if s == "" {
		return false
	}
	for _, r := range s {
		if !(r == '_' || r == '-' || (r >= 'a' && r <= 'z') || (r >= 'A' && r <= 'Z') || (r >= '0' && r <= '9')) {
			return false
		}
	}
	return true
}
