package main

// Assertion language of the contract files: Go-like expressions plus
//   old(e)  result  result.N  forall x T, y U {trigger, ...} :: P   exists ...
//   forall k in lo..hi :: P     a ==> b     a <==> b     ite(c, a, b)
// Parsed into a small AST; typed and translated to SMT in eval.go.

import (
	"fmt"
	"strconv"
	"strings"
	"unicode"
)

type tokKind int

const (
	tEOF tokKind = iota
	tIdent
	tInt
	tString
	tChar
	tOp
)

type tokT struct {
	k   tokKind
	s   string
	pos int
}

type lexer struct {
	src  string
	toks []tokT
}

var ops3 = []string{"<==>", "==>", "&&", "||", "==", "!=", "<=", ">=", "<<", ">>", "&^", "::", ".."}

func lex(src string) ([]tokT, error) {
	var toks []tokT
	i := 0
	for i < len(src) {
		c := src[i]
		if c == ' ' || c == '\t' || c == '\n' || c == '\r' {
			i++
			continue
		}
		if c == '_' || unicode.IsLetter(rune(c)) {
			j := i
			for j < len(src) && (src[j] == '_' || unicode.IsLetter(rune(src[j])) || unicode.IsDigit(rune(src[j]))) {
				j++
			}
			toks = append(toks, tokT{tIdent, src[i:j], i})
			i = j
			continue
		}
		if unicode.IsDigit(rune(c)) {
			j := i
			for j < len(src) && (unicode.IsDigit(rune(src[j])) || unicode.IsLetter(rune(src[j])) || src[j] == '_') {
				j++
			}
			toks = append(toks, tokT{tInt, strings.ReplaceAll(src[i:j], "_", ""), i})
			i = j
			continue
		}
		if c == '"' {
			j := i + 1
			for j < len(src) && src[j] != '"' {
				if src[j] == '\\' {
					j++
				}
				j++
			}
			if j >= len(src) {
				return nil, fmt.Errorf("unterminated string at %d in %q", i, src)
			}
			s, err := strconv.Unquote(src[i : j+1])
			if err != nil {
				return nil, fmt.Errorf("bad string %s: %v", src[i:j+1], err)
			}
			toks = append(toks, tokT{tString, s, i})
			i = j + 1
			continue
		}
		if c == '\'' {
			j := i + 1
			for j < len(src) && src[j] != '\'' {
				if src[j] == '\\' {
					j++
				}
				j++
			}
			r, _, _, err := strconv.UnquoteChar(src[i+1:j], '\'')
			if err != nil {
				return nil, fmt.Errorf("bad char %s: %v", src[i:j+1], err)
			}
			toks = append(toks, tokT{tChar, strconv.Itoa(int(r)), i})
			i = j + 1
			continue
		}
		matched := false
		for _, op := range ops3 {
			if strings.HasPrefix(src[i:], op) {
				toks = append(toks, tokT{tOp, op, i})
				i += len(op)
				matched = true
				break
			}
		}
		if matched {
			continue
		}
		toks = append(toks, tokT{tOp, string(c), i})
		i++
	}
	toks = append(toks, tokT{tEOF, "", len(src)})
	return toks, nil
}

// AST

type Expr interface{ String() string }

type (
	EIdent  struct{ Name string }
	EInt    struct{ V string } // decimal or 0x...
	EStr    struct{ V string }
	EBool   struct{ V bool }
	ENil    struct{}
	ESel    struct {
		X    Expr
		Name string
	}
	EIndex struct{ X, I Expr }
	ESlice struct{ X, Lo, Hi Expr }
	ECall  struct {
		Fn   string
		Args []Expr
	}
	EUn  struct {
		Op string
		X  Expr
	}
	EBin struct {
		Op   string
		X, Y Expr
	}
	EOld   struct{ X Expr }
	EQuant struct {
		Forall   bool
		Vars     []Binder
		Triggers [][]Expr
		Body     Expr
	}
	EResult struct{ N int } // -1: whole
)

type Binder struct {
	Name string
	Type string // textual type
	Lo   Expr   // optional range (forall k in lo..hi)
	Hi   Expr
}

func (e *EIdent) String() string { return e.Name }
func (e *EInt) String() string   { return e.V }
func (e *EStr) String() string   { return strconv.Quote(e.V) }
func (e *EBool) String() string  { return fmt.Sprint(e.V) }
func (e *ENil) String() string   { return "nil" }
func (e *ESel) String() string   { return e.X.String() + "." + e.Name }
func (e *EIndex) String() string { return e.X.String() + "[" + e.I.String() + "]" }
func (e *ESlice) String() string {
	lo, hi := "", ""
	if e.Lo != nil {
		lo = e.Lo.String()
	}
	if e.Hi != nil {
		hi = e.Hi.String()
	}
	return e.X.String() + "[" + lo + ":" + hi + "]"
}
func (e *ECall) String() string {
	var a []string
	for _, x := range e.Args {
		a = append(a, x.String())
	}
	return e.Fn + "(" + strings.Join(a, ", ") + ")"
}
func (e *EUn) String() string  { return e.Op + e.X.String() }
func (e *EBin) String() string { return "(" + e.X.String() + " " + e.Op + " " + e.Y.String() + ")" }
func (e *EOld) String() string { return "old(" + e.X.String() + ")" }
func (e *EQuant) String() string {
	q := "exists"
	if e.Forall {
		q = "forall"
	}
	var b []string
	for _, v := range e.Vars {
		b = append(b, v.Name+" "+v.Type)
	}
	return q + " " + strings.Join(b, ", ") + " :: " + e.Body.String()
}
func (e *EResult) String() string {
	if e.N < 0 {
		return "result"
	}
	return fmt.Sprintf("result.%d", e.N)
}

type parser struct {
	toks []tokT
	p    int
	src  string
}

func ParseExpr(src string) (e Expr, err error) {
	toks, err := lex(src)
	if err != nil {
		return nil, err
	}
	ps := &parser{toks: toks, src: src}
	defer func() {
		if r := recover(); r != nil {
			if pe, ok := r.(parseErr); ok {
				err = fmt.Errorf("parse error in %q: %s", src, string(pe))
				return
			}
			panic(r)
		}
	}()
	e = ps.expr()
	if ps.peek().k != tEOF {
		ps.fail("unexpected %q", ps.peek().s)
	}
	return e, nil
}

type parseErr string

func (p *parser) fail(f string, a ...any) {
	panic(parseErr(fmt.Sprintf(f, a...) + fmt.Sprintf(" (at offset %d)", p.peek().pos)))
}
func (p *parser) peek() tokT { return p.toks[p.p] }
func (p *parser) next() tokT  { t := p.toks[p.p]; p.p++; return t }
func (p *parser) isOp(s string) bool {
	t := p.peek()
	return t.k == tOp && t.s == s
}
func (p *parser) accept(s string) bool {
	if p.isOp(s) {
		p.p++
		return true
	}
	return false
}
func (p *parser) expect(s string) {
	if !p.accept(s) {
		p.fail("expected %q, got %q", s, p.peek().s)
	}
}

func (p *parser) expr() Expr { return p.iff() }

func (p *parser) iff() Expr {
	x := p.impl()
	for p.accept("<==>") {
		y := p.impl()
		x = &EBin{"<==>", x, y}
	}
	return x
}
func (p *parser) impl() Expr {
	x := p.or()
	if p.accept("==>") {
		y := p.impl()
		return &EBin{"==>", x, y}
	}
	return x
}
func (p *parser) or() Expr {
	x := p.and()
	for p.accept("||") {
		x = &EBin{"||", x, p.and()}
	}
	return x
}
func (p *parser) and() Expr {
	x := p.cmp()
	for p.accept("&&") {
		x = &EBin{"&&", x, p.cmp()}
	}
	return x
}
func (p *parser) cmp() Expr {
	x := p.add()
	for _, op := range []string{"==", "!=", "<=", ">=", "<", ">"} {
		if p.accept(op) {
			y := p.add()
			r := Expr(&EBin{op, x, y})
			// chained comparison a <= b < c
			for _, op2 := range []string{"<=", "<", ">=", ">"} {
				if p.accept(op2) {
					z := p.add()
					r = &EBin{"&&", r, &EBin{op2, y, z}}
					break
				}
			}
			return r
		}
	}
	return x
}
func (p *parser) add() Expr {
	x := p.mul()
	for {
		switch {
		case p.accept("+"):
			x = &EBin{"+", x, p.mul()}
		case p.accept("-"):
			x = &EBin{"-", x, p.mul()}
		case p.isOp("|") && !p.isOpAt(1, "|"):
			p.next()
			x = &EBin{"|", x, p.mul()}
		case p.accept("^"):
			x = &EBin{"^", x, p.mul()}
		default:
			return x
		}
	}
}
func (p *parser) isOpAt(k int, s string) bool {
	if p.p+k >= len(p.toks) {
		return false
	}
	t := p.toks[p.p+k]
	return t.k == tOp && t.s == s
}
func (p *parser) mul() Expr {
	x := p.unary()
	for {
		switch {
		case p.accept("*"):
			x = &EBin{"*", x, p.unary()}
		case p.accept("/"):
			x = &EBin{"/", x, p.unary()}
		case p.accept("%"):
			x = &EBin{"%", x, p.unary()}
		case p.accept("<<"):
			x = &EBin{"<<", x, p.unary()}
		case p.accept(">>"):
			x = &EBin{">>", x, p.unary()}
		case p.accept("&^"):
			x = &EBin{"&^", x, p.unary()}
		case p.isOp("&"):
			p.next()
			x = &EBin{"&", x, p.unary()}
		default:
			return x
		}
	}
}
func (p *parser) unary() Expr {
	switch {
	case p.accept("!"):
		return &EUn{"!", p.unary()}
	case p.accept("-"):
		return &EUn{"-", p.unary()}
	case p.accept("^"):
		return &EUn{"^", p.unary()}
	case p.isOp("&"):
		// &G : the address of a package-level variable (e.g. &DisconnectBadRequest)
		p.next()
		return &EUn{"&", p.unary()}
	}
	return p.postfix()
}

func (p *parser) postfix() Expr {
	x := p.primary()
	for {
		switch {
		case p.isOp(".") :
			p.next()
			t := p.next()
			if t.k == tInt {
				if r, ok := x.(*EResult); ok && r.N < 0 {
					n, _ := strconv.Atoi(t.s)
					x = &EResult{n}
					continue
				}
				n, _ := strconv.Atoi(t.s)
				x = &ESel{x, "#" + strconv.Itoa(n)}
				continue
			}
			if t.k != tIdent {
				p.fail("expected field name after '.'")
			}
			// qualified function call pkg.Fn(...)
			if id, ok := x.(*EIdent); ok && p.isOp("(") {
				p.next()
				args := p.args()
				x = &ECall{id.Name + "." + t.s, args}
				continue
			}
			x = &ESel{x, t.s}
		case p.isOp("["):
			p.next()
			var lo, hi Expr
			if p.isOp(":") {
				p.next()
				if !p.isOp("]") {
					hi = p.expr()
				}
				p.expect("]")
				x = &ESlice{x, nil, hi}
				continue
			}
			lo = p.expr()
			if p.accept(":") {
				if !p.isOp("]") {
					hi = p.expr()
				}
				p.expect("]")
				x = &ESlice{x, lo, hi}
				continue
			}
			p.expect("]")
			x = &EIndex{x, lo}
		default:
			return x
		}
	}
}

func (p *parser) args() []Expr {
	var args []Expr
	if p.accept(")") {
		return args
	}
	for {
		args = append(args, p.expr())
		if p.accept(")") {
			return args
		}
		p.expect(",")
	}
}

func (p *parser) typeText() string {
	// mini type syntax: [*] [[]] ident [. ident]
	s := ""
	for {
		if p.accept("*") {
			s += "*"
			continue
		}
		if p.isOp("[") && p.isOpAt(1, "]") {
			p.next()
			p.next()
			s += "[]"
			continue
		}
		break
	}
	t := p.next()
	if t.k != tIdent {
		p.fail("expected type name")
	}
	if t.s == "map" && p.isOp("[") {
		p.next()
		k := p.typeText()
		p.expect("]")
		v := p.typeText()
		return s + "map[" + k + "]" + v
	}
	s += t.s
	if p.isOp(".") && p.toks[p.p+1].k == tIdent {
		p.next()
		s += "." + p.next().s
	}
	return s
}

func (p *parser) primary() Expr {
	t := p.next()
	switch t.k {
	case tInt:
		return &EInt{t.s}
	case tChar:
		return &EInt{t.s}
	case tString:
		return &EStr{t.s}
	case tIdent:
		switch t.s {
		case "true":
			return &EBool{true}
		case "false":
			return &EBool{false}
		case "nil":
			return &ENil{}
		case "result":
			return &EResult{-1}
		case "old":
			p.expect("(")
			x := p.expr()
			p.expect(")")
			return &EOld{x}
		case "forall", "exists":
			q := &EQuant{Forall: t.s == "forall"}
			for {
				n := p.next()
				if n.k != tIdent {
					p.fail("expected bound variable")
				}
				b := Binder{Name: n.s}
				if p.peek().k == tIdent && p.peek().s == "in" {
					p.next()
					b.Type = "int"
					b.Lo = p.add()
					p.expect("..")
					b.Hi = p.add()
				} else {
					b.Type = p.typeText()
				}
				q.Vars = append(q.Vars, b)
				if !p.accept(",") {
					break
				}
			}
			for p.accept("{") {
				var tr []Expr
				for {
					tr = append(tr, p.expr())
					if p.accept("}") {
						break
					}
					p.expect(",")
				}
				q.Triggers = append(q.Triggers, tr)
			}
			p.expect("::")
			q.Body = p.expr()
			return q
		}
		if p.isOp("(") {
			p.next()
			return &ECall{t.s, p.args()}
		}
		return &EIdent{t.s}
	case tOp:
		if t.s == "(" {
			x := p.expr()
			p.expect(")")
			return x
		}
	}
	p.p--
	p.fail("unexpected token %q", t.s)
	return nil
}
