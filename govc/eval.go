package main

import (
	"fmt"
	"go/constant"
	"go/types"
	"hash/fnv"
	"math/big"
	"strings"

	"golang.org/x/tools/go/ssa"
)

// Env is the evaluation context of a contract expression.
type Env struct {
	vars    map[string]Val
	resolve func(name string, h *Heap) (Val, bool) // source-level locals; address-taken ones are read in heap h
	heap    *Heap
	old     *Heap
	pre     *Heap // state just before a call (callsite clauses); nil otherwise
	preResolve func(name string, h *Heap) (Val, bool) // locals as they were in the `pre` state (loop steps: at the loop head)
	results []Val
	pkg     *types.Package
	pc      *PkgContracts
	symHeap *symHeap // non-nil while evaluating an axiom: heaps are bound variables
	depth   int
}

type symHeap struct {
	names []string
	sorts map[string]string
}

func (e *Env) with(vars map[string]Val) *Env {
	n := *e
	n.vars = map[string]Val{}
	for k, v := range e.vars {
		n.vars[k] = v
	}
	for k, v := range vars {
		n.vars[k] = v
	}
	return &n
}

func (g *Gen) envHeapGet(env *Env, h *Heap, name, sort string) string {
	if env.symHeap != nil {
		if _, ok := env.symHeap.sorts[name]; !ok {
			env.symHeap.sorts[name] = sort
			env.symHeap.names = append(env.symHeap.names, name)
		}
		return quote("hq:" + name)
	}
	return g.heapGet(h, name, sort)
}

func (g *Gen) envLoad(env *Env, p Ptr) Val {
	if env.symHeap == nil {
		return g.load(env.heap, p)
	}
	ls := g.leaves(p.T)
	var terms []string
	for _, l := range ls {
		hn := p.Prefix + l.Path
		g.noteLeaf(hn, l, len(p.Idx))
		ht := g.envHeapGet(env, nil, hn, g.heapSort(l.Sort, len(p.Idx)))
		terms = append(terms, sel(ht, p.Idx...))
	}
	if len(ls) == 0 {
		return Val{K: kStruct, T: p.T}
	}
	v, _ := g.unflatten(p.T, terms)
	return v
}

func (g *Gen) resolveType(env *Env, text string) types.Type {
	text = strings.TrimSpace(text)
	if strings.HasPrefix(text, "*") {
		return types.NewPointer(g.resolveType(env, text[1:]))
	}
	if strings.HasPrefix(text, "[]") {
		return types.NewSlice(g.resolveType(env, text[2:]))
	}
	if strings.HasPrefix(text, "map[") {
		if j := strings.Index(text, "]"); j > 0 {
			return types.NewMap(g.resolveType(env, text[4:j]), g.resolveType(env, text[j+1:]))
		}
	}
	if text == "ref" {
		return types.Typ[types.UnsafePointer]
	}
	if strings.HasPrefix(text, "ptr_") {
		// ptr_T is *T where a type has to be written as a plain identifier (second argument of unbox/dyntype)
		return types.NewPointer(g.resolveType(env, text[4:]))
	}
	if text == "any" {
		return types.NewInterfaceType(nil, nil)
	}
	if text == "error" {
		return types.Universe.Lookup("error").Type()
	}
	if o := types.Universe.Lookup(text); o != nil {
		if tn, ok := o.(*types.TypeName); ok {
			return tn.Type()
		}
	}
	if i := strings.Index(text, "."); i >= 0 {
		pn, tn := text[:i], text[i+1:]
		if p := g.w.findPackage(env.pkg, pn); p != nil {
			if o := p.Scope().Lookup(tn); o != nil {
				return o.Type()
			}
		}
		panic(contractErr("unknown type %s", text))
	}
	if env.pkg != nil {
		if o := env.pkg.Scope().Lookup(text); o != nil {
			if _, ok := o.(*types.TypeName); ok {
				return o.Type()
			}
		}
	}
	panic(contractErr("unknown type %s", text))
}

type contractError string

func contractErr(f string, a ...any) contractError { return contractError(fmt.Sprintf(f, a...)) }
func (e contractError) Error() string               { return string(e) }

func (g *Gen) evalBool(e Expr, env *Env) string {
	v := g.eval(e, env)
	if v.K != kScalar || v.T == nil || !isBool(v.T) {
		panic(contractErr("expected boolean expression: %s", e))
	}
	return v.S
}

var boolT = types.Typ[types.Bool]
var intT = types.Typ[types.Int]

func (g *Gen) eval(e Expr, env *Env) Val {
	switch x := e.(type) {
	case *EBool:
		if x.V {
			return sv(boolT, "true")
		}
		return sv(boolT, "false")
	case *EInt:
		n, ok := new(big.Int).SetString(x.V, 0)
		if !ok {
			panic(contractErr("bad integer %s", x.V))
		}
		return Val{K: kUntyped, C: n}
	case *EStr:
		return sv(types.Typ[types.String], g.strConst(x.V))
	case *ENil:
		return Val{K: kUntyped}
	case *EResult:
		if x.N < 0 {
			if len(env.results) == 1 {
				return env.results[0]
			}
			panic(contractErr("`result` used in function with %d results; use result.N", len(env.results)))
		}
		if x.N >= len(env.results) {
			panic(contractErr("result.%d out of range", x.N))
		}
		return env.results[x.N]
	case *EIdent:
		if t, ok := g.cellGhosts[x.Name]; ok && env.symHeap == nil && env.heap != nil {
			// a ghost bound by an expression (`ghost x after F#N = EXPR`, scalar): kept in the symbolic state, so its
			// value follows the path - where F#N was not executed it is an unconstrained initial value
			srt := g.scalarSort(t)
			return sv(t, sel(g.envHeapGet(env, env.heap, "ghost:"+x.Name, "(Array Int "+srt+")"), "0"))
		}
		if v, ok := env.vars[x.Name]; ok {
			return v
		}
		if fv, ok := g.freeVars[x.Name]; ok && env.symHeap == nil {
			if pt, ok := fv.T.Underlying().(*types.Pointer); ok {
				return g.load(env.heap, g.ptrTo(fv.S, pt.Elem()))
			}
		}
		if env.resolve != nil {
			if v, ok := g.resolveIn(env, x.Name); ok {
				return v
			}
		}
		if env.pkg != nil {
			if o := env.pkg.Scope().Lookup(x.Name); o != nil {
				return g.pkgObject(o, env)
			}
		}
		panic(contractErr("contract refers to unknown name %q", x.Name))
	case *EOld:
		n := *env
		n.heap = env.old
		if env.old == nil {
			panic(contractErr("old() not available here"))
		}
		return g.eval(x.X, &n)
	case *ESel:
		// package-qualified constant/global: pkg.Name
		if id, ok := x.X.(*EIdent); ok {
			if _, isVar := env.vars[id.Name]; !isVar {
				resolved := false
				if env.resolve != nil {
					_, resolved = g.resolveIn(env, id.Name)
				}
				if !resolved && (env.pkg == nil || env.pkg.Scope().Lookup(id.Name) == nil) {
					if p := g.w.findPackage(env.pkg, id.Name); p != nil {
						if o := p.Scope().Lookup(x.Name); o != nil {
							return g.pkgObject(o, env)
						}
						panic(contractErr("unknown %s.%s", id.Name, x.Name))
					}
				}
			}
		}
		if _, nested := x.X.(*ESel); nested && env.symHeap == nil {
			// x.inner.f where inner is a struct-valued field: select through the location, so that ghost fields of
			// the nested struct are reachable
			if ap, ok := g.evalAddr(x.X, env); ok {
				if _, isGhost := g.ghostFieldType(env, ap.T, x.Name); isGhost {
					return g.selField(Val{K: kPtr, P: &ap, T: types.NewPointer(ap.T)}, x.Name, env)
				}
			}
		}
		v := g.eval(x.X, env)
		return g.selField(v, x.Name, env)
	case *EIndex:
		v := g.eval(x.X, env)
		return g.indexVal(v, x.I, env)
	case *ESlice:
		v := g.eval(x.X, env)
		return g.sliceVal(v, x.Lo, x.Hi, env)
	case *EUn:
		if x.Op == "&" {
			// address of a package-level variable
			id, ok := x.X.(*EIdent)
			if !ok || env.pkg == nil {
				panic(contractErr("& is only supported on package-level variables: %s", e))
			}
			if _, isLocal := env.vars[id.Name]; isLocal {
				panic(contractErr("& is only supported on package-level variables: %s", e))
			}
			o, isVar := env.pkg.Scope().Lookup(id.Name).(*types.Var)
			if !isVar {
				panic(contractErr("&%s: not a package-level variable", id.Name))
			}
			return sv(types.NewPointer(o.Type()), g.globalRef(o.Pkg().Path()+"."+o.Name()))
		}
		v := g.eval(x.X, env)
		switch x.Op {
		case "!":
			return sv(boolT, not(g.asBool(v, e)))
		case "-":
			if v.K == kUntyped {
				return Val{K: kUntyped, C: new(big.Int).Neg(v.C)}
			}
			z := g.intConst(big.NewInt(0), v.T)
			t, _ := g.intBin("-", z, v.S, v.T, nil)
			return sv(v.T, t)
		case "^":
			if g.mode != "bv" {
				panic(contractErr("^x needs mode bv"))
			}
			return sv(v.T, "(bvnot "+v.S+")")
		}
	case *EBin:
		return g.evalBin(x, env)
	case *EQuant:
		return g.evalQuant(x, env)
	case *ECall:
		return g.evalCall(x, env)
	}
	panic(contractErr("cannot evaluate %s", e))
}

func (g *Gen) pkgObject(o types.Object, env *Env) Val {
	switch ob := o.(type) {
	case *types.Const:
		cv := ob.Val()
		switch cv.Kind() {
		case constant.Int:
			n, _ := new(big.Int).SetString(cv.ExactString(), 10)
			if b, ok := ob.Type().Underlying().(*types.Basic); ok && b.Info()&types.IsUntyped != 0 {
				return Val{K: kUntyped, C: n}
			}
			return sv(ob.Type(), g.intConst(n, ob.Type()))
		case constant.String:
			return sv(ob.Type(), g.strConst(constant.StringVal(cv)))
		case constant.Bool:
			if constant.BoolVal(cv) {
				return sv(boolT, "true")
			}
			return sv(boolT, "false")
		}
	case *types.Var:
		ref := g.globalRef(ob.Pkg().Path() + "." + ob.Name())
		return g.envLoad(env, g.ptrTo(ref, ob.Type()))
	}
	panic(contractErr("unsupported package object %s", o))
}

func (g *Gen) globalRef(name string) string {
	n := quote("G:" + name)
	if !g.declared[n] {
		g.declared[n] = true
		g.emit(evDecl, "(declare-const "+n+" Int)")
		// globals are distinct, non-nil, and older than anything allocated during the run
		g.emit(evAssert, "(assert (and (> "+n+" 0) (< "+n+" "+g.allocTerm(&Heap{})+")))")
		for _, o := range g.globals {
			g.emit(evAssert, "(assert (not (= "+n+" "+o+")))")
		}
		g.globals = append(g.globals, n)
	}
	return n
}

func (g *Gen) asBool(v Val, e Expr) string {
	if v.K != kScalar || v.T == nil || !isBool(v.T) {
		panic(contractErr("expected boolean: %s", e))
	}
	return v.S
}

func (g *Gen) selField(v Val, name string, env *Env) Val {
	if strings.HasPrefix(name, "#") {
		var n int
		fmt.Sscanf(name[1:], "%d", &n)
		if v.K != kStruct || n >= len(v.Fs) {
			panic(contractErr("bad tuple selector .%d", n))
		}
		return v.Fs[n]
	}
	if v.K == kUntyped {
		panic(contractErr("field %s of untyped value", name))
	}
	t := v.T
	if v.K == kPtr {
		st, ok := v.P.T.Underlying().(*types.Struct)
		if !ok {
			panic(contractErr("field %s of non-struct pointer", name))
		}
		for i := 0; i < st.NumFields(); i++ {
			if st.Field(i).Name() == name {
				return g.envLoad(env, Ptr{Prefix: v.P.Prefix + "." + name, Idx: v.P.Idx, T: st.Field(i).Type()})
			}
		}
		if gt, ok := g.ghostFieldType(env, v.P.T, name); ok {
			return g.envLoad(env, Ptr{Prefix: v.P.Prefix + ".ghost:" + name, Idx: v.P.Idx, T: gt})
		}
		panic(contractErr("no field %s in %s", name, v.P.T))
	}
	if pt, ok := t.Underlying().(*types.Pointer); ok {
		st, ok := pt.Elem().Underlying().(*types.Struct)
		if !ok {
			panic(contractErr("field %s of pointer to non-struct %s", name, t))
		}
		p := g.ptrTo(v.S, pt.Elem())
		for i := 0; i < st.NumFields(); i++ {
			if st.Field(i).Name() == name {
				return g.envLoad(env, Ptr{Prefix: p.Prefix + "." + name, Idx: p.Idx, T: st.Field(i).Type()})
			}
		}
		if gt, ok := g.ghostFieldType(env, pt.Elem(), name); ok {
			// ghost field: specification-only state attached to objects of this type
			return g.envLoad(env, Ptr{Prefix: p.Prefix + ".ghost:" + name, Idx: p.Idx, T: gt})
		}
		panic(contractErr("no field %s in %s", name, pt.Elem()))
	}
	if v.K == kScalar && isRefLike(t) {
		// ghost field of a reference-like value that is not a struct pointer (an interface value, a map, ...)
		if gt, ok := g.ghostFieldType(env, t, name); ok {
			return g.envLoad(env, Ptr{Prefix: g.typeName(t) + ".ghost:" + name, Idx: []string{v.S}, T: gt})
		}
	}
	if st, ok := t.Underlying().(*types.Struct); ok && v.K == kStruct {
		for i := 0; i < st.NumFields(); i++ {
			if st.Field(i).Name() == name {
				return v.Fs[i]
			}
		}
		panic(contractErr("no field %s in %s", name, t))
	}
	panic(contractErr("cannot select .%s on %s", name, t))
}

// ghostFieldType: type of a ghost field declared (`ghostfield pkg.Type name type`) for struct type t.
func (g *Gen) ghostFieldType(env *Env, t types.Type, name string) (types.Type, bool) {
	tn := g.typeName(t)
	for _, gf := range g.allGhostFields() {
		if gf.Name == name && (gf.Struct == tn || lastPkgElem(gf.Struct) == tn || lastPkgElem(tn) == gf.Struct) {
			return g.resolveType(env, gf.Type), true
		}
	}
	return nil, false
}

// allGhostFields: ghost fields are global to the verification (declared once, in the package that models the type).
func (g *Gen) allGhostFields() []GhostField {
	var res []GhostField
	for _, pc := range g.w.contracts {
		res = append(res, pc.GhostFields...)
	}
	return res
}

func (g *Gen) toIdx(v Val) string {
	if v.K == kUntyped {
		return g.idxConst(v.C.Int64())
	}
	ii, ok := intInfoOf(v.T)
	if !ok {
		panic(contractErr("index is not an integer"))
	}
	if g.mode == "bv" && ii.bits != 64 {
		return g.intConv(v.S, v.T, intT)
	}
	return v.S
}

func (g *Gen) indexVal(v Val, ie Expr, env *Env) Val {
	if v.K == kSlice {
		i := g.toIdx(g.eval(ie, env))
		et := v.T.Underlying().(*types.Slice).Elem()
		return g.envLoad(env, Ptr{Prefix: "[]" + g.typeName(et), Idx: []string{v.Arr, g.elemIdx(v.Off, i)}, T: et})
	}
	if v.K == kScalar {
		switch u := v.T.Underlying().(type) {
		case *types.Basic:
			if isString(v.T) {
				i := g.toIdx(g.eval(ie, env))
				return sv(types.Typ[types.Uint8], "(sat "+v.S+" "+i+")")
			}
		case *types.Array:
			i := g.toIdx(g.eval(ie, env))
			return sv(u.Elem(), sel(v.S, i))
		case *types.Map:
			k := g.keyCoerce(g.eval(ie, env), u.Key())
			return g.mapLookup(env, v.S, u, k)
		case *types.Pointer:
			if at, ok := u.Elem().Underlying().(*types.Array); ok {
				i := g.toIdx(g.eval(ie, env))
				p := g.ptrTo(v.S, u.Elem())
				return g.envLoad(env, Ptr{Prefix: p.Prefix, Idx: append(append([]string{}, p.Idx...), i), T: at.Elem()})
			}
		}
	}
	if v.K == kPtr {
		if at, ok := v.P.T.Underlying().(*types.Array); ok {
			i := g.toIdx(g.eval(ie, env))
			return g.envLoad(env, Ptr{Prefix: v.P.Prefix, Idx: append(append([]string{}, v.P.Idx...), i), T: at.Elem()})
		}
	}
	panic(contractErr("cannot index value of type %v", v.T))
}

func (g *Gen) mapHeaps(env *Env, mt *types.Map) (dom, ln string, vals []string, valLeaves []Leaf) {
	base := "map:" + g.typeName(mt)
	ks := g.scalarSort(mt.Key())
	h := env.heap
	dom = g.envHeapGet(env, h, base+"#dom", "(Array Int (Array "+ks+" Bool))")
	ln = g.envHeapGet(env, h, base+"#len", "(Array Int "+g.idxSort()+")")
	valLeaves = g.leaves(mt.Elem())
	for _, l := range valLeaves {
		g.noteLeafKey(base+"#val"+l.Path, l, ks)
		vals = append(vals, g.envHeapGet(env, h, base+"#val"+l.Path, "(Array Int (Array "+ks+" "+l.Sort+"))"))
	}
	return
}

func (g *Gen) mapLookup(env *Env, m string, mt *types.Map, k Val) Val {
	dom, _, vals, ls := g.mapHeaps(env, mt)
	z := g.flatten(g.zero(mt.Elem()))
	var terms []string
	for i := range ls {
		terms = append(terms, ite(sel(dom, m, k.S), sel(vals[i], m, k.S), z[i]))
	}
	if len(ls) == 0 {
		return Val{K: kStruct, T: mt.Elem()}
	}
	v, _ := g.unflatten(mt.Elem(), terms)
	return v
}

func (g *Gen) sliceVal(v Val, loE, hiE Expr, env *Env) Val {
	var lo, hi string
	if loE != nil {
		lo = g.toIdx(g.eval(loE, env))
	} else {
		lo = g.idxConst(0)
	}
	if v.K == kSlice {
		if hiE != nil {
			hi = g.toIdx(g.eval(hiE, env))
		} else {
			hi = v.Len
		}
		return Val{K: kSlice, T: v.T, Arr: v.Arr, Off: g.elemIdx(v.Off, lo), Len: g.idxSub(hi, lo), Cap: g.idxSub(v.Cap, lo)}
	}
	if v.K == kScalar && isString(v.T) {
		if hiE != nil {
			hi = g.toIdx(g.eval(hiE, env))
		} else {
			hi = "(slen " + v.S + ")"
		}
		return sv(v.T, "(ssub "+v.S+" "+lo+" "+hi+")")
	}
	panic(contractErr("cannot slice value of type %v", v.T))
}

func (g *Gen) unify(a, b Val) (Val, Val) {
	if a.K == kUntyped && b.K == kUntyped {
		return a, b
	}
	if a.K == kUntyped {
		return g.coerce(a, b.T), b
	}
	if b.K == kUntyped {
		return a, g.coerce(b, a.T)
	}
	return a, b
}

func (g *Gen) valEq(a, b Val) string {
	a, b = g.unify(a, b)
	if a.K == kUntyped {
		if a.C != nil && b.C != nil {
			if a.C.Cmp(b.C) == 0 {
				return "true"
			}
			return "false"
		}
		return "true"
	}
	if a.K == kPtr || b.K == kPtr {
		panic(contractErr("cannot compare interior pointers"))
	}
	fa, fb := g.flatten(a), g.flatten(b)
	if len(fa) != len(fb) {
		panic(contractErr("comparison of values of different shapes (%v vs %v)", a.T, b.T))
	}
	if a.K == kScalar && a.T != nil && b.T != nil {
		ia, oka := intInfoOf(a.T)
		ib, okb := intInfoOf(b.T)
		if oka && okb && g.mode == "bv" && ia.bits != ib.bits {
			panic(contractErr("comparison of integers of different widths (%v vs %v)", a.T, b.T))
		}
	}
	var cs []string
	for i := range fa {
		cs = append(cs, eq(fa[i], fb[i]))
	}
	return and(cs...)
}

func (g *Gen) evalBin(x *EBin, env *Env) Val {
	switch x.Op {
	case "&&":
		return sv(boolT, and(g.evalBool(x.X, env), g.evalBool(x.Y, env)))
	case "||":
		return sv(boolT, or(g.evalBool(x.X, env), g.evalBool(x.Y, env)))
	case "==>":
		return sv(boolT, implies(g.evalBool(x.X, env), g.evalBool(x.Y, env)))
	case "<==>":
		return sv(boolT, eq(g.evalBool(x.X, env), g.evalBool(x.Y, env)))
	}
	a := g.eval(x.X, env)
	b := g.eval(x.Y, env)
	switch x.Op {
	case "==":
		return sv(boolT, g.valEq(a, b))
	case "!=":
		return sv(boolT, not(g.valEq(a, b)))
	}
	if a.K == kUntyped && b.K == kUntyped && a.C != nil && b.C != nil {
		r := new(big.Int)
		switch x.Op {
		case "+":
			return Val{K: kUntyped, C: r.Add(a.C, b.C)}
		case "-":
			return Val{K: kUntyped, C: r.Sub(a.C, b.C)}
		case "*":
			return Val{K: kUntyped, C: r.Mul(a.C, b.C)}
		case "/":
			return Val{K: kUntyped, C: r.Quo(a.C, b.C)}
		case "%":
			return Val{K: kUntyped, C: r.Rem(a.C, b.C)}
		case "<<":
			return Val{K: kUntyped, C: r.Lsh(a.C, uint(b.C.Int64()))}
		case ">>":
			return Val{K: kUntyped, C: r.Rsh(a.C, uint(b.C.Int64()))}
		case "<":
			return sv(boolT, fmt.Sprint(a.C.Cmp(b.C) < 0))
		case "<=":
			return sv(boolT, fmt.Sprint(a.C.Cmp(b.C) <= 0))
		case ">":
			return sv(boolT, fmt.Sprint(a.C.Cmp(b.C) > 0))
		case ">=":
			return sv(boolT, fmt.Sprint(a.C.Cmp(b.C) >= 0))
		}
	}
	var bConst *big.Int
	if b.K == kUntyped {
		bConst = b.C
	}
	if x.Op == "<<" || x.Op == ">>" {
		if a.K == kUntyped {
			a = g.coerce(a, intT)
		}
		bt := types.Type(types.Typ[types.Uint])
		if b.K != kUntyped {
			bt = b.T
		}
		bb := g.coerce(b, bt)
		return sv(a.T, g.intShift(x.Op, a.S, bb.S, a.T, bt, bConst))
	}
	a, b = g.unify(a, b)
	if a.K != kScalar || b.K != kScalar {
		panic(contractErr("operator %s on non-scalar values in %s", x.Op, x))
	}
	if isString(a.T) {
		switch x.Op {
		case "+":
			return sv(a.T, "(scat "+a.S+" "+b.S+")")
		}
		panic(contractErr("operator %s on strings", x.Op))
	}
	ia, ok := intInfoOf(a.T)
	if !ok {
		panic(contractErr("operator %s on non-integer type %s in %s", x.Op, a.T, x))
	}
	if ib, ok := intInfoOf(b.T); ok && g.mode == "bv" && ia.bits != ib.bits {
		panic(contractErr("operands of different widths in %s (%s vs %s)", x, a.T, b.T))
	}
	switch x.Op {
	case "<", "<=", ">", ">=":
		return sv(boolT, g.intCmp(x.Op, a.S, b.S, a.T))
	}
	// arithmetic in specifications: in int mode it is mathematical (no wrap-around) so that specs stay simple;
	// in bv mode it is the machine operation.
	if g.mode == "int" {
		switch x.Op {
		case "+", "-", "*":
			return sv(a.T, "("+x.Op+" "+a.S+" "+b.S+")")
		}
	}
	t, _ := g.intBin(x.Op, a.S, b.S, a.T, bConst)
	return sv(a.T, t)
}

func (g *Gen) evalQuant(x *EQuant, env *Env) Val {
	vars := map[string]Val{}
	var binders []string
	var guards []string
	sub := env.with(nil)
	for _, b := range x.Vars {
		t := g.resolveType(env, b.Type)
		if st, isSlice := t.Underlying().(*types.Slice); isSlice && b.Lo == nil {
			// a slice-typed bound variable: quantify over its backing array, offset, length and capacity
			_ = st
			base := fmt.Sprintf("%s!d%d", b.Name, g.inQuant)
			an, on, ln, cn := quote(base+"#arr"), quote(base+"#off"), quote(base+"#len"), quote(base+"#cap")
			binders = append(binders, "("+an+" Int)", "("+on+" "+g.idxSort()+")", "("+ln+" "+g.idxSort()+")", "("+cn+" "+g.idxSort()+")")
			v := Val{K: kSlice, T: t, Arr: an, Off: on, Len: ln, Cap: cn}
			vars[b.Name] = v
			sub.vars[b.Name] = v
			zero := g.idxConst(0)
			guards = append(guards, g.idxLe(zero, on), g.idxLe(zero, ln), g.idxLe(ln, cn))
			continue
		}
		if _, isStruct := t.Underlying().(*types.Struct); isStruct && b.Lo == nil {
			if ksn, ok := g.structKeySort(t); ok {
				// a bound variable of a struct type usable as a map key: one datatype-sorted binder, the fields of
				// the value are its projections
				name := quote(fmt.Sprintf("%s!d%d", b.Name, g.inQuant))
				binders = append(binders, "("+name+" "+ksn+")")
				var projs []string
				for i := range g.leaves(t) {
					projs = append(projs, fmt.Sprintf("(%s_f%d %s)", ksn, i, name))
				}
				v, _ := g.unflatten(t, projs)
				vars[b.Name] = v
				sub.vars[b.Name] = v
				continue
			}
		}
		if isComposite(t) {
			panic(contractErr("bound variable %s of composite type", b.Name))
		}
		// bound variables are named by nesting depth, not by a counter: two evaluations of the same formula
		// then yield the same text, which lets the solver identify them (quantified facts used as atoms)
		name := quote(fmt.Sprintf("%s!d%d", b.Name, g.inQuant))
		binders = append(binders, "("+name+" "+g.scalarSort(t)+")")
		v := sv(t, name)
		vars[b.Name] = v
		sub.vars[b.Name] = v
		if b.Lo != nil {
			lo := g.coerce(g.eval(b.Lo, sub), t)
			hi := g.coerce(g.eval(b.Hi, sub), t)
			guards = append(guards, g.intCmp("<=", lo.S, name, t), g.intCmp("<", name, hi.S, t))
		} else if rf := g.rangeFact(name, t); rf != "" {
			guards = append(guards, rf)
		}
	}
	g.inQuant++
	body := g.evalBool(x.Body, sub)
	var pats []string
	for _, tr := range x.Triggers {
		var ts []string
		for _, te := range tr {
			if hc, ok := te.(*ECall); ok && hc.Fn == "has" && len(hc.Args) == 2 {
				// has(m,k) is `m != nil && dom[m][k]`; only the select is a legal pattern
				m := g.eval(hc.Args[0], sub)
				if mt, ok := m.T.Underlying().(*types.Map); ok {
					k := g.keyCoerce(g.eval(hc.Args[1], sub), mt.Key())
					dom, _, _, _ := g.mapHeaps(sub, mt)
					ts = append(ts, sel(dom, m.S, k.S))
					continue
				}
			}
			tv := g.eval(te, sub)
			ts = append(ts, g.flatten(tv)...)
		}
		pats = append(pats, ":pattern ("+strings.Join(ts, " ")+")")
	}
	g.inQuant--
	guard := and(guards...)
	var inner string
	if x.Forall {
		inner = implies(guard, body)
	} else {
		// witness triggers: wit(k) is true for every k (axiom); it only gives E-matching something to hold on
		// to when the existential ends up under a negation (as a goal): candidate witnesses are the ground
		// wit-terms — skolem witnesses of assumed existentials and the index terms the program itself uses.
		var ws, wp []string
		if len(pats) == 0 {
			for _, b := range x.Vars {
				v := vars[b.Name]
				if _, ok := intInfoOf(v.T); ok {
					w := "(" + g.witFn(v.T) + " " + v.S + ")"
					ws = append(ws, w)
					wp = append(wp, w)
				}
			}
		}
		inner = and(append(append([]string{guard}, ws...), body)...)
		if len(wp) > 0 && len(wp) == len(x.Vars) {
			pats = append(pats, ":pattern ("+strings.Join(wp, " ")+")")
		}
	}
	hh := fnv.New32a()
	hh.Write([]byte(inner))
	qid := fmt.Sprintf(":qid q%x_%s", hh.Sum32(), x.Vars[0].Name)
	if x.Forall && strings.Contains(body, "(exists") {
		// forall-exists facts feed each other's triggers through their skolem witnesses (matching loops):
		// make each generation of such instances expensive so that only short chains are explored eagerly
		qid += fmt.Sprintf(" :weight %d", g.w.feWeight)
	}
	inner = "(! " + inner + " " + strings.Join(append(pats, qid), " ") + ")"
	q := "exists"
	if x.Forall {
		q = "forall"
	}
	return sv(boolT, "("+q+" ("+strings.Join(binders, " ")+") "+inner+")")
}

func (g *Gen) witFn(t types.Type) string {
	s := g.scalarSort(t)
	name := "wit_Int"
	if s != "Int" {
		name = "wit_" + strings.NewReplacer("(", "", ")", "", " ", "", "_", "").Replace(s)
	}
	if !g.declared[name] {
		g.declared[name] = true
		g.emit(evDecl, fmt.Sprintf("(declare-fun %s (%s) Bool)", name, s))
		g.emit(evAssert, fmt.Sprintf("(assert (forall ((x %s)) (! (%s x) :pattern ((%s x)) :qid wit_ax)))", s, name, name))
	}
	return name
}

// witness: make the integer term t available as a candidate witness for existential goals.
func (g *Gen) witness(t string, ty types.Type) {
	if _, ok := intInfoOf(ty); !ok {
		return
	}
	key := "wit:" + t
	if g.declared[key] {
		return
	}
	g.declared[key] = true
	g.emit(evAssert, "(assert ("+g.witFn(ty)+" "+t+"))")
}

func (g *Gen) evalCall(x *ECall, env *Env) Val {
	arg := func(i int) Val {
		if i >= len(x.Args) {
			panic(contractErr("%s: missing argument %d", x.Fn, i))
		}
		return g.eval(x.Args[i], env)
	}
	switch x.Fn {
	case "witn":
		// witn(k, e): like wit(e) but in its own family k, so that multi-variable existentials can be given one
		// candidate per variable instead of the product of all candidates
		kv := arg(0)
		v := arg(1)
		if v.K == kUntyped {
			v = g.coerce(v, intT)
		}
		if kv.K != kUntyped {
			panic(contractErr("witn: first argument must be a literal"))
		}
		name := fmt.Sprintf("wit%s_fam", kv.C.String())
		if !g.declared[name] {
			g.declared[name] = true
			s := g.scalarSort(v.T)
			g.emit(evDecl, fmt.Sprintf("(declare-fun %s (%s) Bool)", name, s))
			g.emit(evAssert, fmt.Sprintf("(assert (forall ((x %s)) (! (%s x) :pattern ((%s x)) :qid %s_ax)))", s, name, name, name))
		}
		return sv(boolT, "("+name+" "+v.S+")")
	case "wit":
		// wit(e) is true for every e; it exists to be used as a quantifier trigger / to supply ground instances
		v := arg(0)
		if v.K == kUntyped {
			v = g.coerce(v, intT)
		}
		return sv(boolT, "("+g.witFn(v.T)+" "+v.S+")")
	case "before":
		if env.pre == nil {
			panic(contractErr("before() is only available in callsite clauses"))
		}
		n := *env
		n.heap = env.pre
		if env.preResolve != nil {
			n.resolve = env.preResolve
		}
		return g.eval(x.Args[0], &n)
	case "cur":
		id, ok := x.Args[0].(*EIdent)
		if er, isRes := x.Args[0].(*EResult); isRes && er.N < 0 {
			// a local variable that happens to be called `result`
			id, ok = &EIdent{Name: "result"}, true
		}
		if !ok || env.resolve == nil {
			panic(contractErr("cur(x) needs a local variable name"))
		}
		// the variable's storage is read in the heap of the enclosing context (so before(cur(x)) works)
		v, ok := g.resolveIn(env, id.Name)
		if !ok {
			panic(contractErr("contract refers to unknown name %q", id.Name))
		}
		return v
	case "deref":
		v := arg(0)
		return g.envLoad(env, g.ptrOf(v))
	case "len", "cap":
		v := arg(0)
		switch {
		case v.K == kSlice:
			if x.Fn == "len" {
				return sv(intT, v.Len)
			}
			return sv(intT, v.Cap)
		case v.K == kScalar && isString(v.T):
			return sv(intT, "(slen "+v.S+")")
		case v.K == kScalar:
			if mt, ok := v.T.Underlying().(*types.Map); ok {
				_, ln, _, _ := g.mapHeaps(env, mt)
				t := ite(eq(v.S, "0"), g.idxConst(0), sel(ln, v.S))
				if g.inQuant == 0 && env.symHeap == nil {
					// type fact (a map's length is never negative), as for len(m) in code: needed when the
					// code itself never takes this length
					g.assume("true", g.idxLe(g.idxConst(0), t))
				}
				return sv(intT, t)
			}
			if at, ok := v.T.Underlying().(*types.Array); ok {
				return sv(intT, g.idxConst(at.Len()))
			}
		}
		panic(contractErr("len of %v", v.T))
	case "ite":
		c := g.evalBool(x.Args[0], env)
		a, b := g.unify(arg(1), arg(2))
		if a.K == kUntyped {
			a, b = g.coerce(a, intT), g.coerce(b, intT)
		}
		fa, fb := g.flatten(a), g.flatten(b)
		var ts []string
		for i := range fa {
			ts = append(ts, ite(c, fa[i], fb[i]))
		}
		v, _ := g.unflatten(a.T, ts)
		return v
	case "held":
		// held(x.mu): the ghost bit set by Lock and cleared by Unlock in units with `track-locks`
		ap, ok := g.evalAddr(x.Args[0], env)
		if !ok {
			// a pointer-valued expression (e.g. a local `mu := n.subLock(ch)`)
			pv := g.eval(x.Args[0], env)
			lp, lok := g.lockLoc(pv)
			if !lok {
				panic(contractErr("held(): expected a mutex field x.mu or a *sync.Mutex value"))
			}
			ap = lp
		}
		h := env.heap
		if h == nil {
			h = g.heap0
		}
		return sv(boolT, "(select "+g.heapGet(h, "held:"+ap.Prefix, "(Array Int Bool)")+" "+ap.Idx[0]+")")
	case "has":
		m := arg(0)
		mt, ok := m.T.Underlying().(*types.Map)
		if !ok {
			panic(contractErr("has() on non-map"))
		}
		k := g.keyCoerce(arg(1), mt.Key())
		dom, _, _, _ := g.mapHeaps(env, mt)
		return sv(boolT, and(not(eq(m.S, "0")), sel(dom, m.S, k.S)))
	case "rangeseen":
		// rangeseen(k) / rangeseen(N, k): key k was already yielded by the (N-th) map range statement of the function
		var rng *ssa.Range
		want := 0
		if len(x.Args) == 2 {
			if c, ok := x.Args[0].(*EInt); ok {
				fmt.Sscanf(c.V, "%d", &want)
			}
		}
		n := 0
		for _, b := range g.fn.Blocks {
			for _, in := range b.Instrs {
				if r, ok := in.(*ssa.Range); ok {
					if _, isMap := r.X.Type().Underlying().(*types.Map); !isMap {
						continue
					}
					n++
					if want == 0 && rng != nil {
						panic(contractErr("rangeseen(k): several map range statements, write rangeseen(N, k)"))
					}
					if want == 0 || want == n {
						rng = r
					}
				}
			}
		}
		if rng == nil {
			panic(contractErr("rangeseen: no such map range statement"))
		}
		mt := rng.X.Type().Underlying().(*types.Map)
		k := g.keyCoerce(arg(len(x.Args)-1), mt.Key())
		seen := g.envHeapGet(env, env.heap, g.rangeSeenName(rng), "(Array "+g.scalarSort(mt.Key())+" Bool)")
		return sv(boolT, sel(seen, k.S))
	case "fresh":
		v := arg(0)
		var ref string
		switch v.K {
		case kScalar:
			ref = v.S
		case kSlice:
			ref = v.Arr
		default:
			panic(contractErr("fresh() of composite"))
		}
		return sv(boolT, "(> "+ref+" "+g.allocTerm(env.old)+")")
	case "allocated":
		v := arg(0)
		ref := v.S
		if v.K == kSlice {
			ref = v.Arr
		}
		return sv(boolT, "(<= "+ref+" "+g.allocTerm(env.heap)+")")
	case "arr":
		v := arg(0)
		if v.K != kSlice {
			panic(contractErr("arr() of non-slice"))
		}
		return sv(types.Typ[types.UnsafePointer], v.Arr)
	case "off":
		v := arg(0)
		return sv(intT, v.Off)
	case "isnil":
		v := arg(0)
		if v.K == kSlice {
			return sv(boolT, eq(v.Arr, "0"))
		}
		return sv(boolT, eq(v.S, "0"))
	case "dyntype":
		v := arg(0)
		t := g.resolveType(env, x.Args[1].String())
		return sv(boolT, eq("(dyntype "+v.S+")", fmt.Sprint(g.typeTag(t))))
	case "unbox":
		v := arg(0)
		t := g.resolveType(env, x.Args[1].String())
		return g.unboxIn(env, v.S, t)
	case "min", "max":
		a, b := g.unify(arg(0), arg(1))
		if a.K == kUntyped {
			a, b = g.coerce(a, intT), g.coerce(b, intT)
		}
		op := "<="
		if x.Fn == "max" {
			op = ">="
		}
		return sv(a.T, ite(g.intCmp(op, a.S, b.S, a.T), a.S, b.S))
	}
	// integer conversions
	if o := types.Universe.Lookup(x.Fn); o != nil {
		if tn, ok := o.(*types.TypeName); ok && len(x.Args) == 1 {
			v := arg(0)
			if v.K == kUntyped {
				return g.coerce(v, tn.Type())
			}
			if _, ok := intInfoOf(tn.Type()); ok {
				return sv(tn.Type(), g.intConv(v.S, v.T, tn.Type()))
			}
		}
	}
	if m, menv := g.findMacroEnv(env, x.Fn); m != nil {
		if len(m.Params) != len(x.Args) {
			panic(contractErr("%s: expected %d arguments", x.Fn, len(m.Params)))
		}
		if env.depth > 40 {
			panic(contractErr("macro recursion too deep in %s", x.Fn))
		}
		vars := map[string]Val{}
		for i, p := range m.Params {
			t := g.resolveType(menv, p.Type)
			vars[p.Name] = g.coerce(arg(i), t)
		}
		sub := *menv
		sub.vars = vars
		sub.resolve = nil
		sub.depth = env.depth + 1
		r := g.eval(m.Body, &sub)
		if m.RetType != "" {
			r = g.coerce(r, g.resolveType(menv, m.RetType))
		}
		return r
	}
	if u := g.findUFun(env, x.Fn); u != nil {
		return g.applyUFun(u, x, env)
	}
	if i := strings.Index(x.Fn, "."); i > 0 {
		// pkg.ufun: an uninterpreted function (with its axioms) of another package's contract set
		pn, un := x.Fn[:i], x.Fn[i+1:]
		for dir, pc := range g.w.contracts {
			path := modulePath
			if dir != "." {
				path += "/" + dir
			}
			sp := g.w.spkgs[path]
			if sp == nil || sp.Pkg.Name() != pn {
				continue
			}
			if u, ok := pc.UFuns[un]; ok {
				sub := *env
				sub.pc = pc
				sub.pkg = sp.Pkg
				g.importAxioms(pc, &sub)
				// arguments are evaluated in the caller's vocabulary, the function is declared in its own
				return g.applyUFunArgs(u, x, env, &sub)
			}
		}
	}
	panic(contractErr("unknown function %s in contract", x.Fn))
}

func (g *Gen) resolveIn(env *Env, name string) (Val, bool) {
	if env.resolve == nil {
		return Val{}, false
	}
	h := env.heap
	if h == nil || h.m == nil {
		h = g.heap0
	}
	return env.resolve(name, h)
}

func (g *Gen) findMacro(env *Env, name string) *Macro {
	if env.pc != nil {
		if m, ok := env.pc.Macros[name]; ok {
			return m
		}
	}
	return nil
}
// findMacroEnv: a macro of the current contract set, or `pkg.name` of another package's contract set (evaluated
// in that package's vocabulary: its types, macros and ghost fields; same heaps).
func (g *Gen) findMacroEnv(env *Env, name string) (*Macro, *Env) {
	if m := g.findMacro(env, name); m != nil {
		return m, env
	}
	if i := strings.Index(name, "."); i > 0 {
		pn, mn := name[:i], name[i+1:]
		for dir, pc := range g.w.contracts {
			path := modulePath
			if dir != "." {
				path += "/" + dir
			}
			sp := g.w.spkgs[path]
			if sp == nil || sp.Pkg.Name() != pn {
				continue
			}
			if m, ok := pc.Macros[mn]; ok {
				sub := *env
				sub.pc = pc
				sub.pkg = sp.Pkg
				return m, &sub
			}
		}
	}
	return nil, nil
}

func (g *Gen) findUFun(env *Env, name string) *UFun {
	if env.pc != nil {
		if m, ok := env.pc.UFuns[name]; ok {
			return m
		}
	}
	return nil
}

// readHeaps resolves a `reads` item (Type.field or []Type) to heap names and sorts.
func (g *Gen) readHeaps(env *Env, spec string) (names, sorts []string) {
	spec = strings.TrimSpace(spec)
	if strings.HasPrefix(spec, "map[") {
		// map[K]V : the domain and value heaps of that map type
		j := strings.Index(spec, "]")
		mt := types.NewMap(g.resolveType(env, spec[4:j]), g.resolveType(env, spec[j+1:]))
		ks := g.scalarSort(mt.Key())
		base := "map:" + g.typeName(mt)
		names = append(names, base+"#dom")
		sorts = append(sorts, "(Array Int (Array "+ks+" Bool))")
		for _, l := range g.leaves(mt.Elem()) {
			names = append(names, base+"#val"+l.Path)
			sorts = append(sorts, "(Array Int (Array "+ks+" "+l.Sort+"))")
		}
		return
	}
	if strings.HasPrefix(spec, "[]") {
		et := g.resolveType(env, spec[2:])
		for _, l := range g.leaves(et) {
			names = append(names, "[]"+g.typeName(et)+l.Path)
			sorts = append(sorts, g.heapSort(l.Sort, 2))
		}
		return
	}
	i := strings.LastIndex(spec, ".")
	if i < 0 {
		panic(contractErr("bad reads item %q", spec))
	}
	// Type.field, where Type may be pkg.Type
	tn, fn := spec[:i], spec[i+1:]
	t := g.resolveType(env, tn)
	st, ok := t.Underlying().(*types.Struct)
	if !ok {
		panic(contractErr("reads %s: not a struct", spec))
	}
	for k := 0; k < st.NumFields(); k++ {
		if st.Field(k).Name() == fn {
			for _, l := range g.leaves(st.Field(k).Type()) {
				names = append(names, g.typeName(t)+"."+fn+l.Path)
				sorts = append(sorts, g.heapSort(l.Sort, 1))
			}
			return
		}
	}
	panic(contractErr("reads %s: no such field", spec))
}

func (g *Gen) applyUFun(u *UFun, x *ECall, env *Env) Val { return g.applyUFunArgs(u, x, env, env) }

// applyUFunArgs: arguments are evaluated in argEnv; the function's signature (types, heaps it reads) is resolved in
// declEnv, the contract set that declares it. The SMT symbol carries the declaring package.
func (g *Gen) applyUFunArgs(u *UFun, x *ECall, argEnv, declEnv *Env) Val {
	if len(u.Params) != len(x.Args) {
		panic(contractErr("%s: expected %d arguments", u.Name, len(u.Params)))
	}
	var argSorts, args []string
	for _, r := range u.Reads {
		ns, ss := g.readHeaps(declEnv, r)
		for i := range ns {
			argSorts = append(argSorts, ss[i])
			args = append(args, g.envHeapGet(argEnv, argEnv.heap, ns[i], ss[i]))
		}
	}
	for i, p := range u.Params {
		t := g.resolveType(declEnv, p.Type)
		v := g.coerce(g.eval(x.Args[i], argEnv), t)
		for j, l := range g.leaves(t) {
			argSorts = append(argSorts, l.Sort)
			args = append(args, g.flatten(v)[j])
		}
	}
	rt := g.resolveType(declEnv, u.RetType)
	dir := ""
	if declEnv.pc != nil {
		dir = declEnv.pc.PkgDir
	}
	name := quote("uf:" + dir + ":" + u.Name)
	if !g.declared[name] {
		g.declared[name] = true
		g.emit(evDecl, fmt.Sprintf("(declare-fun %s (%s) %s)", name, strings.Join(argSorts, " "), g.scalarSort(rt)))
	}
	g.usedUFuns[u.Name] = true
	if len(args) == 0 {
		return sv(rt, name)
	}
	return sv(rt, "("+name+" "+strings.Join(args, " ")+")")
}

// importAxioms makes the axioms of another package's contract set available (once per generator).
func (g *Gen) importAxioms(pc *PkgContracts, env *Env) {
	key := "axioms:" + pc.PkgDir
	if g.declared[key] || pc == g.pc {
		return
	}
	g.declared[key] = true
	for _, a := range pc.Axioms {
		f := g.axiomFormula(a, env)
		g.emit(evAssert, "(assert "+f+")")
		if !a.Lemma {
			g.addAssumption("axiom " + pc.PkgDir + "." + a.Name + ": " + a.Src)
		}
	}
}

// emitAxiom evaluates an axiom with heaps as universally quantified variables.
func (g *Gen) axiomFormula(a *Axiom, env0 *Env) string {
	env := *env0
	env.symHeap = &symHeap{sorts: map[string]string{}}
	env.vars = map[string]Val{}
	env.resolve = nil
	env.old = nil
	var binders []string
	var body string
	if q, ok := a.Body.(*EQuant); ok && q.Forall {
		// merge heap binders into the top-level quantifier
		f := g.evalQuant(q, &env).S
		// f = (forall (binders) inner)
		if len(env.symHeap.names) == 0 {
			return f
		}
		rest := strings.TrimPrefix(f, "(forall (")
		for _, n := range env.symHeap.names {
			binders = append(binders, "("+quote("hq:"+n)+" "+env.symHeap.sorts[n]+")")
		}
		return "(forall (" + strings.Join(binders, " ") + " " + rest
	}
	body = g.evalBool(a.Body, &env)
	if len(env.symHeap.names) == 0 {
		return body
	}
	for _, n := range env.symHeap.names {
		binders = append(binders, "("+quote("hq:"+n)+" "+env.symHeap.sorts[n]+")")
	}
	return "(forall (" + strings.Join(binders, " ") + ") " + body + ")"
}

// ---------- interfaces ----------

func (g *Gen) typeTag(t types.Type) int {
	n := g.typeName(t)
	if id, ok := g.typeTags[n]; ok {
		return id
	}
	id := len(g.typeTags) + 1
	g.typeTags[n] = id
	return id
}

func (g *Gen) boxFn(t types.Type) string {
	name := quote("box:" + g.typeName(t))
	if !g.declared[name] {
		g.declared[name] = true
		s := g.scalarSort(t)
		un := quote("unbox:" + g.typeName(t))
		g.emit(evDecl, fmt.Sprintf("(declare-fun %s (%s) Int)", name, s))
		g.emit(evDecl, fmt.Sprintf("(declare-fun %s (Int) %s)", un, s))
		g.emit(evAssert, fmt.Sprintf("(assert (forall ((x %s)) (! (and (= (%s (%s x)) x) (= (dyntype (%s x)) %d) (> (%s x) 0)) :pattern ((%s x)))))", s, un, name, name, g.typeTag(t), name, name))
	}
	return name
}

func (g *Gen) box(v Val) string {
	if v.K != kScalar {
		// a composite value is boxed into a fresh immutable cell of the heap "box:T"
		if v.K == kPtr || g.inQuant > 0 || g.heap == nil || g.heap.m == nil {
			r := g.fresh("boxed", "Int")
			g.assume("true", "(> "+r+" 0)")
			g.assume("true", eq("(dyntype "+r+")", fmt.Sprint(g.typeTag(v.T))))
			return r
		}
		r := g.newRef("box")
		if len(g.leaves(v.T)) > 0 {
			g.store(g.heap, Ptr{Prefix: "box:" + g.typeName(v.T), Idx: []string{r}, T: v.T}, v)
		}
		g.assume("true", eq("(dyntype "+r+")", fmt.Sprint(g.typeTag(v.T))))
		return r
	}
	if _, isIface := v.T.Underlying().(*types.Interface); isIface {
		return v.S
	}
	if _, isPtr := v.T.Underlying().(*types.Pointer); isPtr {
		// quantifier-free boxing of pointers: a non-nil pointer is its own box (references are unique across
		// types); a nil pointer of type T is boxed as the negative number -tag(T) (a non-nil interface).
		tag := g.typeTag(v.T)
		b := g.define("ibox", "Int", ite(eq(v.S, "0"), fmt.Sprintf("(- %d)", tag), v.S))
		g.assume("true", eq("(dyntype "+b+")", fmt.Sprint(tag)))
		return b
	}
	// pointer-like dynamic values: a nil pointer in an interface is still a non-nil interface; keep box.
	return "(" + g.boxFn(v.T) + " " + v.S + ")"
}

func (g *Gen) unbox(iface string, t types.Type) Val {
	return g.unboxIn(nil, iface, t)
}

// unboxIn reads a boxed composite from the box heap of the given evaluation context (nil: the current heap).
func (g *Gen) unboxIn(env *Env, iface string, t types.Type) Val {
	if isComposite(t) {
		if len(g.leaves(t)) == 0 {
			return Val{K: kStruct, T: t}
		}
		p := Ptr{Prefix: "box:" + g.typeName(t), Idx: []string{iface}, T: t}
		if env != nil {
			return g.envLoad(env, p)
		}
		if g.heap == nil || g.heap.m == nil {
			return g.freshVal("unboxed", t)
		}
		return g.load(g.heap, p)
	}
	if _, isPtr := t.Underlying().(*types.Pointer); isPtr {
		return sv(t, ite("(< "+iface+" 0)", "0", iface))
	}
	g.boxFn(t)
	return sv(t, "("+quote("unbox:"+g.typeName(t))+" "+iface+")")
}
