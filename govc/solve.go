package main

import (
	"bytes"
	"context"
	"fmt"
	"os"
	"os/exec"
	"path/filepath"
	"regexp"
	"strings"
	"sync"
	"time"
)

type Result struct {
	Ob      *Oblig
	Status  string // proved | refuted | unknown | vacuous | sat-ok
	Backend string
	Ms      int64
	Model   map[string]string
	Output  string
	File    string
	Candidate bool // model found with quantified facts dropped: only a candidate until replayed
}

func (g *Gen) Obligations() []*Oblig {
	var obs []*Oblig
	for _, e := range g.events {
		if e.K == evOblig {
			obs = append(obs, e.Ob)
		}
	}
	return obs
}

// Query renders the SMT-LIB script for one obligation: everything that precedes it, then the negated goal.
func (g *Gen) Query(ob *Oblig) string { return g.query(ob, false) }

var symRe = regexp.MustCompile(`\|[^|]+\|`)

// ubiquitousSym: path-condition and allocation-frontier symbols occur in almost every assertion; sharing only such a
// symbol does not make two assertions relevant to each other.
func ubiquitousSym(s string) bool {
	return strings.HasPrefix(s, "|reach") || strings.HasPrefix(s, "|alloc!") || strings.HasSuffix(s, "$alloc|")
}

// slicedAsserts is a cone-of-influence filter over the hypotheses of an obligation: starting from the symbols of
// the goal, an assertion is kept if it shares a (non-ubiquitous) symbol with what is already kept; assertions made
// only of path-condition symbols are kept when one of them is. Dropping hypotheses can only make a proof harder,
// never unsound, so an `unsat` answer for the sliced query is a proof of the full one. Used as an additional
// portfolio member for the large queries of dataflow-only units (thousands of type facts about havocked heaps).
func (g *Gen) slicedAsserts(ob *Oblig) map[int]bool {
	type info struct{ all, key []string }
	infos := map[int]*info{}
	index := map[string][]int{}
	for i, e := range g.events[:ob.evIndex] {
		if e.K != evAssert {
			continue
		}
		in := &info{}
		seen := map[string]bool{}
		for _, m := range symRe.FindAllString(e.Text, -1) {
			if seen[m] {
				continue
			}
			seen[m] = true
			in.all = append(in.all, m)
			if !ubiquitousSym(m) {
				in.key = append(in.key, m)
			}
		}
		infos[i] = in
		trig := in.key
		if len(trig) == 0 {
			trig = in.all
		}
		// a definition `(= |x| term)` of a generated symbol matters only when x itself does (it says nothing
		// about the symbols of term unless x is used)
		if strings.HasPrefix(e.Text, "(assert (= |") && len(in.all) > 0 && strings.HasPrefix(e.Text[len("(assert (= "):], in.all[0]+" ") && strings.Contains(in.all[0], "!") {
			trig = in.all[:1]
		}
		for _, m := range trig {
			index[m] = append(index[m], i)
		}
	}
	keep := map[int]bool{}
	rel := map[string]bool{}
	var work []string
	add := func(m string) {
		if !rel[m] {
			rel[m] = true
			work = append(work, m)
		}
	}
	for _, m := range symRe.FindAllString(ob.Guard+" "+ob.Goal, -1) {
		add(m)
	}
	for len(work) > 0 {
		m := work[len(work)-1]
		work = work[:len(work)-1]
		for _, i := range index[m] {
			if keep[i] {
				continue
			}
			keep[i] = true
			for _, x := range infos[i].all {
				add(x)
			}
		}
	}
	return keep
}

// querySliced renders the obligation with only the hypotheses in its cone of influence (see slicedAsserts).
func (g *Gen) querySliced(ob *Oblig) string {
	keep := g.slicedAsserts(ob)
	var b strings.Builder
	for _, e := range g.events[:ob.evIndex] {
		if e.K == evDecl {
			b.WriteString(e.Text)
			b.WriteByte('\n')
		}
	}
	for i, e := range g.events[:ob.evIndex] {
		if e.K == evAssert && keep[i] {
			b.WriteString(e.Text)
			b.WriteByte('\n')
		}
	}
	b.WriteString("(assert " + ob.Guard + ")\n")
	b.WriteString("(assert (not " + ob.Goal + "))\n")
	b.WriteString("(check-sat)\n")
	body := b.String()
	return "(set-option :produce-models true)\n(set-logic ALL)\n" + g.prelude(body) + body
}

// query with dropQuant omits every quantified assertion (an over-approximation used only to find candidate
// counterexamples when the full query is undecided; such models are reported as candidates and replayed).
func (g *Gen) query(ob *Oblig, dropQuant bool) string {
	var b strings.Builder
	// declarations may appear after uses in event order (lazy heap constants); hoist all declarations that
	// precede the obligation, then assertions.
	for _, e := range g.events[:ob.evIndex] {
		if e.K == evDecl {
			b.WriteString(e.Text)
			b.WriteByte('\n')
		}
	}
	for _, e := range g.events[:ob.evIndex] {
		if e.K == evAssert {
			if dropQuant && (strings.Contains(e.Text, "(forall") || strings.Contains(e.Text, "(exists")) {
				continue
			}
			b.WriteString(e.Text)
			b.WriteByte('\n')
		}
	}
	if !ob.ExpectSat {
		b.WriteString("(assert " + ob.Guard + ")\n")
		b.WriteString("(assert (not " + ob.Goal + "))\n")
	} else if ob.Guard != "" && ob.Guard != "true" {
		// cover obligation: this program point must be reachable under everything assumed so far
		b.WriteString("(assert " + ob.Guard + ")\n")
	}
	b.WriteString("(check-sat)\n")
	if !ob.ExpectSat {
		for i, w := range ob.Watch {
			fmt.Fprintf(&b, "(echo \"@@%d\")\n(get-value (%s))\n", i, w.Term)
		}
	}
	body := b.String()
	pre := g.prelude(body)
	if dropQuant {
		var pb strings.Builder
		for _, l := range strings.Split(pre, "\n") {
			if !strings.Contains(l, "(forall") {
				pb.WriteString(l + "\n")
			}
		}
		pre = pb.String()
	}
	return "(set-option :produce-models true)\n(set-logic ALL)\n" + pre + body
}

type solver struct {
	name string
	args func(file string, timeoutS int) []string
}

var solvers = map[string]solver{
	"z3-new": {"z3-new", func(f string, t int) []string { return []string{"z3-new", "-smt2", fmt.Sprintf("-T:%d", t), f} }},
	"z3":     {"z3", func(f string, t int) []string { return []string{"z3", "-smt2", fmt.Sprintf("-T:%d", t), f} }},
	"cvc5":   {"cvc5", func(f string, t int) []string { return []string{"cvc5", fmt.Sprintf("--tlimit=%d", t*1000), "--full-saturate-quant", f} }},
}

func runSolver(ctx context.Context, s solver, file string, timeoutS int) (status string, out string, ms int64) {
	args := s.args(file, timeoutS)
	cctx, cancel := context.WithTimeout(ctx, time.Duration(timeoutS+2)*time.Second)
	defer cancel()
	cmd := exec.CommandContext(cctx, args[0], args[1:]...)
	var buf bytes.Buffer
	cmd.Stdout = &buf
	cmd.Stderr = &buf
	t0 := time.Now()
	_ = cmd.Run()
	ms = time.Since(t0).Milliseconds()
	out = buf.String()
	first := ""
	for _, l := range strings.Split(out, "\n") {
		l = strings.TrimSpace(l)
		if l == "" || strings.HasPrefix(l, "WARNING") || strings.HasPrefix(l, "(warning") {
			continue
		}
		first = l
		break
	}
	switch first {
	case "unsat", "sat":
		return first, out, ms
	}
	if strings.HasPrefix(first, "(error") {
		return "error", out, ms
	}
	return "unknown", out, ms
}

var sem = make(chan struct{}, 16)

func solveOne(dir string, g *Gen, ob *Oblig, quickT, slowT int) *Result {
	q := g.Query(ob)
	fname := filepath.Join(dir, sanitizeFile(ob.Unit+"__"+ob.Name)+".smt2")
	_ = os.WriteFile(fname, []byte(q), 0o644)
	res := &Result{Ob: ob, File: fname}
	finish := func(st, backend, out string, ms int64) *Result {
		res.Backend = backend
		res.Ms = ms
		res.Output = out
		switch {
		case ob.ExpectSat && st == "unsat":
			res.Status = "vacuous"
		case ob.ExpectSat:
			res.Status = "sat-ok"
		case st == "unsat":
			res.Status = "proved"
		case st == "sat":
			res.Status = "refuted"
			res.Model = parseModel(out, ob)
		default:
			res.Status = "unknown"
		}
		return res
	}
	if ob.Goal == "true" && !ob.ExpectSat {
		return finish("unsat", "trivial", "", 0)
	}
	t1 := quickT
	if ob.ExpectSat {
		t1 = 2 // vacuity guard: only an `unsat` answer matters, and that comes quickly or not at all
	}
	sem <- struct{}{}
	st, out, ms := runSolver(context.Background(), solvers["z3-new"], fname, t1)
	<-sem
	if st == "unsat" || st == "sat" {
		return finish(st, "z3-new", out, ms)
	}
	if st == "error" {
		res.Output = out
	}
	if ob.ExpectSat {
		return finish("unknown", "z3-new", out, ms)
	}
	// race the portfolio
	type r struct {
		st, out, be string
		ms          int64
	}
	ctx, cancel := context.WithCancel(context.Background())
	defer cancel()
	ch := make(chan r, 5)
	var wg sync.WaitGroup
	// additional portfolio members: the same obligation with only the hypotheses in its cone of influence; only a
	// proof (`unsat`) is taken from them
	fSliced := strings.TrimSuffix(fname, ".smt2") + ".sliced.smt2"
	_ = os.WriteFile(fSliced, []byte(g.querySliced(ob)), 0o644)
	for _, name := range []string{"z3-new", "cvc5"} {
		wg.Add(1)
		go func(name string) {
			defer wg.Done()
			sem <- struct{}{}
			defer func() { <-sem }()
			st, out, ms := runSolver(ctx, solvers[name], fSliced, slowT)
			if st != "unsat" {
				st = "unknown"
			}
			ch <- r{st, out, name + "(sliced)", ms}
		}(name)
	}
	for _, name := range []string{"z3", "cvc5", "z3-new"} {
		wg.Add(1)
		go func(name string) {
			defer wg.Done()
			sem <- struct{}{}
			defer func() { <-sem }()
			st, out, ms := runSolver(ctx, solvers[name], fname, slowT)
			ch <- r{st, out, name, ms}
		}(name)
	}
	go func() { wg.Wait(); close(ch) }()
	var last r
	var errOut string
	for x := range ch {
		if x.st == "unsat" || x.st == "sat" {
			cancel()
			return finish(x.st, x.be, x.out, x.ms)
		}
		if x.st == "error" && x.be != "cvc5" {
			errOut = x.out
		}
		last = x
	}
	if errOut != "" {
		last.out = errOut
	}
	// undecided: look for a candidate counterexample without the quantified facts
	if !strings.Contains(ob.Goal, "(forall") && !strings.Contains(ob.Goal, "(exists") {
		f2 := strings.TrimSuffix(fname, ".smt2") + ".noquant.smt2"
		_ = os.WriteFile(f2, []byte(g.query(ob, true)), 0o644)
		sem <- struct{}{}
		st, out, ms := runSolver(context.Background(), solvers["z3-new"], f2, quickT)
		<-sem
		if st == "sat" {
			r := finish("sat", "z3-new(no-quant candidate)", out, ms)
			r.Candidate = true
			return r
		}
	}
	return finish("unknown", "portfolio", last.out, last.ms)
}

var fileSan = regexp.MustCompile(`[^A-Za-z0-9_.@#-]+`)

func sanitizeFile(s string) string {
	s = fileSan.ReplaceAllString(s, "_")
	if len(s) > 150 {
		s = s[:150]
	}
	return s
}

func parseModel(out string, ob *Oblig) map[string]string {
	m := map[string]string{}
	parts := strings.Split(out, "@@")
	for _, p := range parts[1:] {
		nl := strings.IndexByte(p, '\n')
		if nl < 0 {
			continue
		}
		var idx int
		if _, err := fmt.Sscanf(strings.Trim(p[:nl], "\" \r"), "%d", &idx); err != nil || idx >= len(ob.Watch) {
			continue
		}
		val := strings.TrimSpace(p[nl+1:])
		if strings.HasPrefix(val, "(error") {
			continue
		}
		// ((term value)) -> value
		val = strings.TrimSpace(val)
		term := ob.Watch[idx].Term
		if strings.HasPrefix(val, "((") && strings.HasSuffix(val, "))") {
			inner := val[2 : len(val)-2]
			if strings.HasPrefix(inner, term) {
				inner = strings.TrimSpace(inner[len(term):])
			} else if j := strings.LastIndex(inner, " "); j >= 0 && !strings.HasSuffix(inner, ")") {
				inner = inner[j+1:]
			}
			val = inner
		}
		m[ob.Watch[idx].Label] = val
	}
	return m
}

func solveAll(dir string, g *Gen, obs []*Oblig, quickT, slowT int) []*Result {
	results := make([]*Result, len(obs))
	var wg sync.WaitGroup
	for i, ob := range obs {
		wg.Add(1)
		go func(i int, ob *Oblig) {
			defer wg.Done()
			results[i] = solveOne(dir, g, ob, quickT, slowT)
		}(i, ob)
	}
	wg.Wait()
	return results
}
