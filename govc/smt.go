package main

import (
	"fmt"
	"go/types"
	"math/big"
	"strings"
)

// ---------- symbolic values ----------

type vkind int

const (
	kScalar vkind = iota
	kSlice
	kStruct // also tuples
	kPtr    // interior pointer with statically known heap path
	kUntyped
)

type Val struct {
	K   vkind
	T   types.Type
	S   string // scalar term
	Arr string // slice: backing array ref (Int)
	Off string // slice: offset (IDX)
	Len string
	Cap string
	Fs  []Val // struct / tuple components
	P   *Ptr
	C   *big.Int // untyped integer constant
}

// Ptr is a pointer whose target heap location is known structurally:
// heaps are named Prefix + leafPath, indexed by Idx (Idx[0] is a Ref (Int), the rest IDX-sorted).
type Ptr struct {
	Prefix string
	Idx    []string
	T      types.Type // pointee type
}

func sv(t types.Type, s string) Val { return Val{K: kScalar, T: t, S: s} }

// ---------- sorts ----------

const refSort = "Int"

func (g *Gen) idxSort() string {
	if g.mode == "bv" {
		return "(_ BitVec 64)"
	}
	return "Int"
}

type intInfo struct {
	bits   int
	signed bool
}

func intInfoOf(t types.Type) (intInfo, bool) {
	b, ok := t.Underlying().(*types.Basic)
	if !ok {
		return intInfo{}, false
	}
	switch b.Kind() {
	case types.Int, types.Int64, types.UntypedInt, types.UntypedRune:
		return intInfo{64, true}, true
	case types.Int32:
		return intInfo{32, true}, true
	case types.Int16:
		return intInfo{16, true}, true
	case types.Int8:
		return intInfo{8, true}, true
	case types.Uint, types.Uint64, types.Uintptr:
		return intInfo{64, false}, true
	case types.Uint32:
		return intInfo{32, false}, true
	case types.Uint16:
		return intInfo{16, false}, true
	case types.Uint8:
		return intInfo{8, false}, true
	}
	return intInfo{}, false
}

func isString(t types.Type) bool {
	b, ok := t.Underlying().(*types.Basic)
	return ok && b.Info()&types.IsString != 0
}
func isBool(t types.Type) bool {
	b, ok := t.Underlying().(*types.Basic)
	return ok && b.Info()&types.IsBoolean != 0
}
func isFloat(t types.Type) bool {
	b, ok := t.Underlying().(*types.Basic)
	return ok && b.Info()&(types.IsFloat|types.IsComplex) != 0
}

// scalarSort returns the SMT sort of a non-composite Go type.
func (g *Gen) scalarSort(t types.Type) string {
	if ii, ok := intInfoOf(t); ok {
		if g.mode == "bv" {
			return fmt.Sprintf("(_ BitVec %d)", ii.bits)
		}
		return "Int"
	}
	switch u := t.Underlying().(type) {
	case *types.Basic:
		switch {
		case u.Info()&types.IsBoolean != 0:
			return "Bool"
		case u.Info()&types.IsString != 0:
			return "Str"
		case u.Info()&(types.IsFloat|types.IsComplex) != 0:
			return "Flt"
		case u.Kind() == types.UnsafePointer:
			return refSort
		case u.Kind() == types.UntypedNil:
			return refSort
		}
	case *types.Pointer, *types.Map, *types.Chan, *types.Signature, *types.Interface:
		return refSort
	case *types.Array:
		return fmt.Sprintf("(Array %s %s)", g.idxSort(), g.scalarSort(u.Elem()))
	case *types.TypeParam:
		return refSort
	case *types.Struct:
		if n, ok := g.structKeySort(t); ok {
			return n
		}
	}
	panic(unsupported("no scalar sort for type %s", t))
}

// structKeySort: a struct type used as a map key (all fields scalar) is an SMT datatype with one constructor; two
// keys are equal exactly when all their fields are. The declaration is emitted by prelude() when the sort occurs.
func (g *Gen) structKeySort(t types.Type) (string, bool) {
	st, ok := t.Underlying().(*types.Struct)
	if !ok || st.NumFields() == 0 {
		return "", false
	}
	name := "SK_" + fileSan.ReplaceAllString(g.typeName(t), "_")
	name = strings.ReplaceAll(strings.ReplaceAll(name, "#", "_"), "@", "_")
	if g.keySorts == nil {
		g.keySorts = map[string]string{}
	}
	if _, ok := g.keySorts[name]; ok {
		return name, true
	}
	var fs []string
	okAll := true
	func() {
		defer func() {
			if r := recover(); r != nil {
				okAll = false
			}
		}()
		for i, l := range g.leaves(t) {
			if l.Part != "" {
				okAll = false // slices inside keys are not comparable in Go anyway
				return
			}
			fs = append(fs, fmt.Sprintf("(%s_f%d %s)", name, i, l.Sort))
		}
	}()
	if !okAll || len(fs) == 0 {
		return "", false
	}
	g.keySorts[name] = fmt.Sprintf("(declare-datatypes ((%s 0)) (((mk_%s %s))))", name, name, strings.Join(fs, " "))
	return name, true
}

// keyCoerce converts a value to the index term of a map with key type kt (a datatype term for struct keys).
func (g *Gen) keyCoerce(v Val, kt types.Type) Val {
	v = g.coerce(v, kt)
	if _, isStruct := kt.Underlying().(*types.Struct); isStruct && v.K == kStruct {
		if n, ok := g.structKeySort(kt); ok {
			return sv(kt, "(mk_"+n+" "+strings.Join(g.flatten(v), " ")+")")
		}
	}
	return v
}

type Leaf struct {
	Path string // "" for a scalar type itself; ".f", ".f.g", "#arr" ...
	Sort string
	T    types.Type // type of the leaf (for slices: the slice type on each of the 4 leaves)
	Part string     // "", "arr", "off", "len", "cap"
}

func isComposite(t types.Type) bool {
	switch t.Underlying().(type) {
	case *types.Slice, *types.Struct, *types.Tuple:
		return true
	}
	return false
}

func (g *Gen) leaves(t types.Type) []Leaf {
	switch u := t.Underlying().(type) {
	case *types.Slice:
		return []Leaf{
			{"#arr", refSort, t, "arr"}, {"#off", g.idxSort(), t, "off"},
			{"#len", g.idxSort(), t, "len"}, {"#cap", g.idxSort(), t, "cap"},
		}
	case *types.Struct:
		var ls []Leaf
		for i := 0; i < u.NumFields(); i++ {
			f := u.Field(i)
			for _, l := range g.leaves(f.Type()) {
				ls = append(ls, Leaf{"." + f.Name() + l.Path, l.Sort, l.T, l.Part})
			}
		}
		return ls
	case *types.Tuple:
		var ls []Leaf
		for i := 0; i < u.Len(); i++ {
			for _, l := range g.leaves(u.At(i).Type()) {
				ls = append(ls, Leaf{fmt.Sprintf(".%d%s", i, l.Path), l.Sort, l.T, l.Part})
			}
		}
		return ls
	case *types.Array:
		if isComposite(u.Elem()) {
			// arrays of composite elements are only ever addressed, never loaded as values
			return nil
		}
	}
	return []Leaf{{"", g.scalarSort(t), t, ""}}
}

// flatten gives the leaf terms of a value in the order of leaves(t).
func (g *Gen) flatten(v Val) []string {
	switch v.K {
	case kScalar:
		return []string{v.S}
	case kSlice:
		return []string{v.Arr, v.Off, v.Len, v.Cap}
	case kStruct:
		var r []string
		for _, f := range v.Fs {
			r = append(r, g.flatten(f)...)
		}
		return r
	case kUntyped:
		panic(unsupported("untyped constant where a typed value is needed"))
	}
	panic(unsupported("cannot flatten interior pointer value (pointer escapes)"))
}

func (g *Gen) unflatten(t types.Type, terms []string) (Val, []string) {
	switch u := t.Underlying().(type) {
	case *types.Slice:
		return Val{K: kSlice, T: t, Arr: terms[0], Off: terms[1], Len: terms[2], Cap: terms[3]}, terms[4:]
	case *types.Struct:
		v := Val{K: kStruct, T: t}
		for i := 0; i < u.NumFields(); i++ {
			var f Val
			f, terms = g.unflatten(u.Field(i).Type(), terms)
			v.Fs = append(v.Fs, f)
		}
		return v, terms
	case *types.Tuple:
		v := Val{K: kStruct, T: t}
		for i := 0; i < u.Len(); i++ {
			var f Val
			f, terms = g.unflatten(u.At(i).Type(), terms)
			v.Fs = append(v.Fs, f)
		}
		return v, terms
	case *types.Array:
		if isComposite(u.Elem()) {
			return Val{K: kStruct, T: t}, terms
		}
	}
	return sv(t, terms[0]), terms[1:]
}

// ---------- fresh names / declarations ----------

func quote(s string) string {
	if strings.ContainsAny(s, " |\\") {
		s = strings.NewReplacer(" ", "_", "|", "!", "\\", "/").Replace(s)
	}
	return "|" + s + "|"
}

func (g *Gen) fresh(hint, sort string) string {
	g.nfresh++
	name := quote(fmt.Sprintf("%s!%d", hint, g.nfresh))
	g.emit(evDecl, fmt.Sprintf("(declare-const %s %s)", name, sort))
	return name
}

func (g *Gen) freshVal(hint string, t types.Type) Val {
	ls := g.leaves(t)
	var terms []string
	for _, l := range ls {
		terms = append(terms, g.fresh(hint+l.Path, l.Sort))
	}
	if len(ls) == 0 {
		return Val{K: kStruct, T: t}
	}
	v, _ := g.unflatten(t, terms)
	return v
}

// ---------- integer arithmetic (mode dependent) ----------

func bvConst(v *big.Int, bits int) string {
	m := new(big.Int).Lsh(big.NewInt(1), uint(bits))
	x := new(big.Int).Mod(v, m)
	return fmt.Sprintf("(_ bv%s %d)", x.String(), bits)
}

func intConstStr(v *big.Int) string {
	if v.Sign() < 0 {
		return "(- " + new(big.Int).Neg(v).String() + ")"
	}
	return v.String()
}

func (g *Gen) intConst(v *big.Int, t types.Type) string {
	ii, ok := intInfoOf(t)
	if !ok {
		panic(unsupported("integer constant of non-integer type %s", t))
	}
	if g.mode == "bv" {
		return bvConst(v, ii.bits)
	}
	// int mode: constants are normalised to the type's range
	if !ii.signed && v.Sign() < 0 {
		m := new(big.Int).Lsh(big.NewInt(1), uint(ii.bits))
		return intConstStr(new(big.Int).Mod(v, m))
	}
	return intConstStr(v)
}

func (g *Gen) idxConst(n int64) string {
	if g.mode == "bv" {
		return bvConst(big.NewInt(n), 64)
	}
	return intConstStr(big.NewInt(n))
}

func rangeOf(ii intInfo) (*big.Int, *big.Int) {
	if ii.signed {
		hi := new(big.Int).Lsh(big.NewInt(1), uint(ii.bits-1))
		lo := new(big.Int).Neg(hi)
		return lo, hi.Sub(hi, big.NewInt(1))
	}
	hi := new(big.Int).Lsh(big.NewInt(1), uint(ii.bits))
	return big.NewInt(0), hi.Sub(hi, big.NewInt(1))
}

// rangeFact: in int mode, the fact that a term of integer type t lies in the type's range.
func (g *Gen) rangeFact(term string, t types.Type) string {
	if g.mode == "bv" {
		return ""
	}
	ii, ok := intInfoOf(t)
	if !ok {
		return ""
	}
	lo, hi := rangeOf(ii)
	return fmt.Sprintf("(and (<= %s %s) (<= %s %s))", intConstStr(lo), term, term, intConstStr(hi))
}

func and(xs ...string) string {
	var r []string
	for _, x := range xs {
		if x == "" || x == "true" {
			continue
		}
		if x == "false" {
			return "false"
		}
		r = append(r, x)
	}
	switch len(r) {
	case 0:
		return "true"
	case 1:
		return r[0]
	}
	return "(and " + strings.Join(r, " ") + ")"
}
func or(xs ...string) string {
	var r []string
	for _, x := range xs {
		if x == "" || x == "false" {
			continue
		}
		if x == "true" {
			return "true"
		}
		r = append(r, x)
	}
	switch len(r) {
	case 0:
		return "false"
	case 1:
		return r[0]
	}
	return "(or " + strings.Join(r, " ") + ")"
}
func not(x string) string {
	switch x {
	case "true":
		return "false"
	case "false":
		return "true"
	}
	if strings.HasPrefix(x, "(not ") && balancedTail(x[5:len(x)-1]) {
		return x[5 : len(x)-1]
	}
	return "(not " + x + ")"
}
func balancedTail(s string) bool {
	d := 0
	for i := 0; i < len(s); i++ {
		switch s[i] {
		case '(':
			d++
		case ')':
			d--
			if d < 0 {
				return false
			}
		case '|':
			j := strings.IndexByte(s[i+1:], '|')
			if j < 0 {
				return false
			}
			i += j + 1
		}
		if d == 0 && i < len(s)-1 && (s[i] == ' ') {
			return false
		}
	}
	return d == 0
}
func implies(a, b string) string {
	if a == "true" {
		return b
	}
	if b == "true" {
		return "true"
	}
	return "(=> " + a + " " + b + ")"
}
func ite(c, a, b string) string {
	if a == b {
		return a
	}
	if c == "true" {
		return a
	}
	if c == "false" {
		return b
	}
	return "(ite " + c + " " + a + " " + b + ")"
}
func eq(a, b string) string {
	if a == b {
		return "true"
	}
	return "(= " + a + " " + b + ")"
}
func sel(a string, idx ...string) string {
	for _, i := range idx {
		a = "(select " + a + " " + i + ")"
	}
	return a
}
func storeN(a string, idx []string, v string) string {
	if len(idx) == 1 {
		return "(store " + a + " " + idx[0] + " " + v + ")"
	}
	inner := storeN("(select "+a+" "+idx[0]+")", idx[1:], v)
	return "(store " + a + " " + idx[0] + " " + inner + ")"
}

// binary integer operation with Go semantics for type t. Returns term and (int mode, signed) an
// overflow side condition that must hold for the mathematical treatment to be exact ("" if none).
func (g *Gen) intBin(op string, a, b string, t types.Type, bConst *big.Int) (string, string) {
	ii, _ := intInfoOf(t)
	if g.mode == "bv" {
		switch op {
		case "+":
			return "(bvadd " + a + " " + b + ")", ""
		case "-":
			return "(bvsub " + a + " " + b + ")", ""
		case "*":
			return "(bvmul " + a + " " + b + ")", ""
		case "/":
			if ii.signed {
				return "(bvsdiv " + a + " " + b + ")", ""
			}
			return "(bvudiv " + a + " " + b + ")", ""
		case "%":
			if ii.signed {
				return "(bvsrem " + a + " " + b + ")", ""
			}
			return "(bvurem " + a + " " + b + ")", ""
		case "&":
			return "(bvand " + a + " " + b + ")", ""
		case "|":
			return "(bvor " + a + " " + b + ")", ""
		case "^":
			return "(bvxor " + a + " " + b + ")", ""
		case "&^":
			return "(bvand " + a + " (bvnot " + b + "))", ""
		}
		panic(unsupported("bv op %s", op))
	}
	lo, hi := rangeOf(ii)
	wrap := func(raw string) (string, string) {
		if ii.signed {
			return raw, fmt.Sprintf("(and (<= %s %s) (<= %s %s))", intConstStr(lo), raw, raw, intConstStr(hi))
		}
		m := new(big.Int).Lsh(big.NewInt(1), uint(ii.bits))
		return "(mod " + raw + " " + m.String() + ")", ""
	}
	switch op {
	case "+":
		if !ii.signed && g.fc != nil && strings.HasPrefix(g.fc.NoOverflow, "unsigned") {
			// `assume no-overflow unsigned: ...` - unsigned additions of this unit are assumed not to wrap (listed
			// as an assumption): the sum is the mathematical one and lies in the type's range
			raw := "(+ " + a + " " + b + ")"
			g.addAssumption("no-overflow (unsigned additions do not wrap): " + g.fc.NoOverflow)
			g.assume(g.curReach, fmt.Sprintf("(<= %s %s)", raw, intConstStr(hi)))
			return raw, ""
		}
		return wrap("(+ " + a + " " + b + ")")
	case "-":
		return wrap("(- " + a + " " + b + ")")
	case "*":
		return wrap("(* " + a + " " + b + ")")
	case "/", "%":
		if op == "%" && bConst == nil {
			// remainder by a variable: uninterpreted, with ground instances of true facts about Go's % for the
			// pair of terms at hand (sound, merely incomplete; avoids nonlinear arithmetic)
			r := "(gomod " + a + " " + b + ")"
			g.needGomod = true
			key := "gomod:" + a + "%" + b
			if !g.declared[key] {
				g.declared[key] = true
				pos := "(and (>= " + a + " 0) (> " + b + " 0))"
				g.emit(evAssert, fmt.Sprintf("(assert (=> %s (and (<= 0 %s) (< %s %s))))", pos, r, r, b))
				g.emit(evAssert, fmt.Sprintf("(assert (=> %s (= %s (+ (* %s (div %s %s)) %s))))", pos, a, b, a, b, r)) // a == b*(a/b) + a%%b
				g.emit(evAssert, fmt.Sprintf("(assert (=> (and %s (< %s %s)) (= %s %s)))", pos, a, b, r, a))
				g.emit(evAssert, fmt.Sprintf("(assert (=> (and %s (<= %s %s) (< %s (* 2 %s))) (= %s (- %s %s))))", pos, b, a, a, b, r, a, b))
				g.emit(evAssert, fmt.Sprintf("(assert (=> (and %s (<= (* 2 %s) %s) (< %s (* 3 %s))) (= %s (- %s (* 2 %s)))))", pos, b, a, a, b, r, a, b))
			}
			return r, ""
		}
		// Go: truncated division. SMT div/mod: floor for positive divisor (euclidean).
		var q string
		if !ii.signed || (bConst != nil && bConst.Sign() > 0) {
			// divisor positive
			if ii.signed {
				q = fmt.Sprintf("(ite (>= %s 0) (div %s %s) (- (div (- %s) %s)))", a, a, b, a, b)
			} else {
				q = "(div " + a + " " + b + ")"
			}
		} else {
			absA := fmt.Sprintf("(ite (>= %s 0) %s (- %s))", a, a, a)
			absB := fmt.Sprintf("(ite (>= %s 0) %s (- %s))", b, b, b)
			qa := fmt.Sprintf("(div %s %s)", absA, absB)
			q = fmt.Sprintf("(ite (= (>= %s 0) (>= %s 0)) %s (- %s))", a, b, qa, qa)
		}
		if op == "/" {
			return q, ""
		}
		if !ii.signed {
			return "(mod " + a + " " + b + ")", ""
		}
		return fmt.Sprintf("(- %s (* %s %s))", a, b, q), ""
	case "&":
		if bConst != nil {
			// x & (2^k - 1) == x mod 2^k   (x >= 0 or two's complement: holds for mathematical mod as well)
			k := new(big.Int).Add(bConst, big.NewInt(1))
			if k.Sign() > 0 && new(big.Int).And(k, bConst).Sign() == 0 {
				return "(mod " + a + " " + k.String() + ")", ""
			}
		}
	}
	panic(unsupported("operator %s on integers needs `mode bv`", op))
}

func (g *Gen) intShift(op string, a, b string, t types.Type, bt types.Type, bConst *big.Int) string {
	ii, _ := intInfoOf(t)
	if g.mode == "bv" {
		bi, _ := intInfoOf(bt)
		// bring shift count to width of a; Go: count >= width gives 0 (or sign fill)
		var cnt string
		switch {
		case bi.bits == ii.bits:
			cnt = b
		case bi.bits < ii.bits:
			cnt = fmt.Sprintf("((_ zero_extend %d) %s)", ii.bits-bi.bits, b)
		default:
			// saturate
			cnt = fmt.Sprintf("(ite (bvuge %s %s) %s ((_ extract %d 0) %s))", b, bvConst(big.NewInt(int64(ii.bits)), bi.bits), bvConst(big.NewInt(int64(ii.bits)), ii.bits), ii.bits-1, b)
		}
		switch op {
		case "<<":
			return "(bvshl " + a + " " + cnt + ")"
		case ">>":
			if ii.signed {
				return "(bvashr " + a + " " + cnt + ")"
			}
			return "(bvlshr " + a + " " + cnt + ")"
		}
	}
	if bConst == nil || !bConst.IsInt64() || bConst.Int64() < 0 || bConst.Int64() > 63 {
		panic(unsupported("shift by non-constant needs `mode bv`"))
	}
	p := new(big.Int).Lsh(big.NewInt(1), uint(bConst.Int64()))
	if op == "<<" {
		raw := "(* " + a + " " + p.String() + ")"
		m := new(big.Int).Lsh(big.NewInt(1), uint(ii.bits))
		if ii.signed {
			return raw // overflow not tracked for shifts of signed (rare); documented
		}
		return "(mod " + raw + " " + m.String() + ")"
	}
	return "(div " + a + " " + p.String() + ")"
}

func (g *Gen) intCmp(op string, a, b string, t types.Type) string {
	if op == "==" {
		return eq(a, b)
	}
	if op == "!=" {
		return not(eq(a, b))
	}
	ii, _ := intInfoOf(t)
	if g.mode == "bv" {
		var f string
		switch op {
		case "<":
			f = "lt"
		case "<=":
			f = "le"
		case ">":
			f = "gt"
		case ">=":
			f = "ge"
		}
		if ii.signed {
			return "(bvs" + f + " " + a + " " + b + ")"
		}
		return "(bvu" + f + " " + a + " " + b + ")"
	}
	return "(" + op + " " + a + " " + b + ")"
}

// convert integer term from type `from` to type `to`.
func (g *Gen) intConv(a string, from, to types.Type) string {
	fi, _ := intInfoOf(from)
	ti, _ := intInfoOf(to)
	if g.mode == "bv" {
		switch {
		case fi.bits == ti.bits:
			return a
		case fi.bits > ti.bits:
			return fmt.Sprintf("((_ extract %d 0) %s)", ti.bits-1, a)
		default:
			if fi.signed {
				return fmt.Sprintf("((_ sign_extend %d) %s)", ti.bits-fi.bits, a)
			}
			return fmt.Sprintf("((_ zero_extend %d) %s)", ti.bits-fi.bits, a)
		}
	}
	// int mode: reinterpret modulo 2^bits of target
	lo, hi := rangeOf(ti)
	flo, fhi := rangeOf(fi)
	if flo.Cmp(lo) >= 0 && fhi.Cmp(hi) <= 0 {
		return a // widening, value preserved
	}
	m := new(big.Int).Lsh(big.NewInt(1), uint(ti.bits))
	if !ti.signed {
		return "(mod " + a + " " + m.String() + ")"
	}
	// signed target: ((a + 2^(b-1)) mod 2^b) - 2^(b-1)
	h := new(big.Int).Lsh(big.NewInt(1), uint(ti.bits-1))
	return fmt.Sprintf("(- (mod (+ %s %s) %s) %s)", a, h.String(), m.String(), h.String())
}

// idx conversions: a Go `int`-typed term is already in IDX sort.
func (g *Gen) idxAdd(a, b string) string {
	if g.mode == "bv" {
		return "(bvadd " + a + " " + b + ")"
	}
	if a == "0" {
		return b
	}
	if b == "0" {
		return a
	}
	return "(+ " + a + " " + b + ")"
}
// elemIdx: position off+i in a backing array. In int mode the sum is wrapped in the function `ix`
// (axiom: ix(o,i) = o+i) so that quantifier patterns over element accesses are not destroyed by the
// solver's flattening of nested sums; a literal zero offset needs no wrapper.
func (g *Gen) elemIdx(off, i string) string {
	if g.mode == "bv" {
		return g.idxAdd(off, i)
	}
	if off == "0" {
		return i
	}
	// re-associate nested offsets: ix(ix(a,b), i) is written ix(a, b+i), so that every access to one
	// backing array through any sub-slice has the shape ix(a, _) that quantifier patterns expect
	if strings.HasPrefix(off, "(ix ") {
		if args := splitArgs(off[4 : len(off)-1]); len(args) == 2 {
			return "(ix " + args[0] + " (+ " + args[1] + " " + i + "))"
		}
	}
	return "(ix " + off + " " + i + ")"
}

// splitArgs splits the top-level arguments of an s-expression body.
func splitArgs(s string) []string {
	var res []string
	depth, start := 0, -1
	inBar := false
	for i := 0; i < len(s); i++ {
		c := s[i]
		if inBar {
			if c == '|' {
				inBar = false
			}
			continue
		}
		switch c {
		case '|':
			inBar = true
			if depth == 0 && start < 0 {
				start = i
			}
		case '(':
			if depth == 0 && start < 0 {
				start = i
			}
			depth++
		case ')':
			depth--
		case ' ':
			if depth == 0 && start >= 0 {
				res = append(res, s[start:i])
				start = -1
			}
		default:
			if depth == 0 && start < 0 {
				start = i
			}
		}
	}
	if start >= 0 {
		res = append(res, s[start:])
	}
	return res
}

func (g *Gen) idxSub(a, b string) string {
	if g.mode == "bv" {
		return "(bvsub " + a + " " + b + ")"
	}
	if b == "0" {
		return a
	}
	return "(- " + a + " " + b + ")"
}
func (g *Gen) idxLe(a, b string) string {
	if g.mode == "bv" {
		return "(bvsle " + a + " " + b + ")"
	}
	return "(<= " + a + " " + b + ")"
}
func (g *Gen) idxLt(a, b string) string {
	if g.mode == "bv" {
		return "(bvslt " + a + " " + b + ")"
	}
	return "(< " + a + " " + b + ")"
}

type unsupportedErr string

func unsupported(f string, a ...any) unsupportedErr { return unsupportedErr(fmt.Sprintf(f, a...)) }
func (e unsupportedErr) Error() string               { return string(e) }
