package main

import (
	"regexp"
	"encoding/json"
	"flag"
	"fmt"
	"os"
	"os/exec"
	"path/filepath"
	"sort"
	"strings"
	"sync"
	"time"

	"golang.org/x/tools/go/ssa"
)

type unitRun struct {
	Unit    string
	Fc      *FuncContract
	G       *Gen
	Results []*Result
	Err     error
	GenMs   int64
	SolveMs int64
	lost    []*Result // obligations whose anchor (call site) vanished from the code
	lostOnly bool     // the unit could not be generated because a ghost anchor vanished: Results holds only the lost clauses
}

var dumpOnly bool
var verifRoot = "/verif"

// overlayFiles is the -overlay mapping (mutant testing), passed on to replay runs.
var overlayFiles = map[string]string{}

func main() {
	var (
		repo     = flag.String("repo", "/repo", "repository root")
		verif    = flag.String("verif", "/verif", "verification root")
		prop     = flag.String("prop", "", "property id")
		tier     = flag.String("tier", "quick", "quick|thorough")
		unitF    = flag.String("unit", "", "only units containing this substring")
		keep     = flag.Bool("keep", false, "keep SMT files")
		verbose  = flag.Bool("v", false, "verbose")
		list     = flag.Bool("list", false, "list units")
		noEvid   = flag.Bool("no-evidence", false, "do not write evidence")
		overlayF = flag.String("overlay", "", "JSON file {path: replacement-file} applied as build overlay (mutant testing)")
	)
	flag.BoolVar(&dumpOnly, "dump", false, "only write the SMT files (implies -keep)")
	flag.Parse()
	if dumpOnly {
		*keep = true
		*noEvid = true
	}
	verifRoot = *verif
	for _, kv := range goEnv() {
		if i := strings.Index(kv, "="); i > 0 {
			os.Setenv(kv[:i], kv[i+1:])
		}
	}
	t0 := time.Now()
	var overlay map[string][]byte
	if *overlayF != "" {
		overlay = map[string][]byte{}
		var m map[string]string
		data, err := os.ReadFile(*overlayF)
		if err != nil {
			die(2, "overlay: %v", err)
		}
		if err := json.Unmarshal(data, &m); err != nil {
			die(2, "overlay: %v", err)
		}
		for k, v := range m {
			b, err := os.ReadFile(v)
			if err != nil {
				die(2, "overlay: %v", err)
			}
			overlay[k] = b
			overlayFiles[k] = v
		}
	}
	w, err := LoadWorld(*repo, []string{"./..."}, overlay)
	if err != nil {
		die(2, "load: %v", err)
	}
	loadMs := time.Since(t0).Milliseconds()
	// select units
	var units []*unitRun
	var dirs []string
	for d := range w.contracts {
		dirs = append(dirs, d)
	}
	sort.Strings(dirs)
	for _, d := range dirs {
		pc := w.contracts[d]
		for _, name := range pc.Order {
			fc := pc.Funcs[name]
			if *prop != "" && !contains(fc.Props, *prop) {
				continue
			}
			unit := d + ":" + name
			if *unitF != "" && !strings.Contains(unit, *unitF) {
				continue
			}
			units = append(units, &unitRun{Unit: unit, Fc: fc})
		}
		// lemmas of the contract file: proved once per property that has a function contract in this package
		// (they are available as facts to every function of the package, so they must be discharged here)
		var lemmaProps []string
		var lemmaMode, lemmaFn string
		for _, name := range pc.Order {
			fc := pc.Funcs[name]
			if *prop == "" || contains(fc.Props, *prop) {
				lemmaProps = fc.Props
				if lemmaFn == "" {
					lemmaFn, lemmaMode = name, fc.Mode
				}
			}
		}
		if lemmaFn != "" {
			for _, a := range pc.Axioms {
				if !a.Lemma {
					continue
				}
				unit := d + ":lemma:" + a.Name
				if *unitF != "" && !strings.Contains(unit, *unitF) {
					continue
				}
				units = append(units, &unitRun{Unit: unit, Fc: &FuncContract{Name: "lemma:" + a.Name, Props: lemmaProps, Mode: lemmaMode, Pkg: d, Loops: map[int]*LoopSpec{}, Notes: []string{lemmaFn}}})
			}
		}
	}
	if *list {
		for _, u := range units {
			fmt.Println(u.Unit, u.Fc.Props)
		}
		return
	}
	if len(units) == 0 {
		die(2, "no units under contract for property %q", *prop)
	}
	tmp, err := os.MkdirTemp("", "govc-")
	if err != nil {
		die(2, "%v", err)
	}
	if !*keep {
		defer os.RemoveAll(tmp)
	} else {
		fmt.Fprintln(os.Stderr, "SMT files in", tmp)
	}
	quickT, slowT := 6, 30
	if *tier == "thorough" {
		quickT, slowT = 20, 120
	}
	for _, u := range units {
		runUnit(w, u, tmp, quickT, slowT, *verbose)
	}
	if *unitF == "" || strings.Contains("lemma", *unitF) {
		units = append(units, runLemmas(*prop, *verif, quickT, slowT, *verbose)...)
	}
	code := report(w, units, *prop, *tier, *verif, t0, loadMs, *noEvid, *verbose)
	if !*keep {
		os.RemoveAll(tmp)
	}
	os.Exit(code)
}

// runLemmas: pure-mathematics lemmas of a property, kept as SMT-LIB files under /verif/lemmas/<prop>/*.smt2.
// They connect contracts proved on the code (e.g. "this function returns exactly this concatenation") with the
// property statement (e.g. "these concatenations have the same Redis hash tag"), in a theory the code-level
// encoding does not use (SMT-LIB strings). Header lines:  ; name: ...   ; solver: cvc5 --strings-exp   ; about: ...
// Every file must be `unsat`.
func runLemmas(prop, verif string, quickT, slowT int, verbose bool) []*unitRun {
	files, _ := filepath.Glob(filepath.Join(verif, "lemmas", prop, "*.smt2"))
	sort.Strings(files)
	res := make([]*unitRun, len(files))
	var wg sync.WaitGroup
	for fi, f := range files {
		data, err := os.ReadFile(f)
		if err != nil {
			continue
		}
		wg.Add(1)
		go func(fi int, f string, data []byte) {
			defer wg.Done()
			name := strings.TrimSuffix(filepath.Base(f), ".smt2")
			solverLine := "cvc5 --strings-exp"
			about := ""
			for _, l := range strings.Split(string(data), "\n") {
				l = strings.TrimSpace(l)
				if strings.HasPrefix(l, "; solver:") {
					solverLine = strings.TrimSpace(strings.TrimPrefix(l, "; solver:"))
				}
				if strings.HasPrefix(l, "; about:") {
					about = strings.TrimSpace(strings.TrimPrefix(l, "; about:"))
				}
			}
			ob := &Oblig{Unit: ".:lemma:" + name, Name: "lemma", Kind: "lemma", Desc: about, Contractual: true, Props: []string{prop}}
			args := strings.Fields(solverLine)
			t0 := time.Now()
			// string lemmas take 5-15 s on an idle machine: a generous limit keeps a loaded machine from turning a
			// proof into `unknown` (which would be reported as a violation)
			timeout := slowT * 6
			if args[0] == "cvc5" {
				args = append(args, fmt.Sprintf("--tlimit=%d", timeout*1000))
			} else {
				args = append(args, fmt.Sprintf("-T:%d", timeout))
			}
			args = append(args, f)
			out, _ := exec.Command(args[0], args[1:]...).CombinedOutput()
			first := ""
			for _, l := range strings.Split(string(out), "\n") {
				if l = strings.TrimSpace(l); l != "" && !strings.HasPrefix(l, "WARNING") {
					first = l
					break
				}
			}
			r := &Result{Ob: ob, Backend: args[0], Ms: time.Since(t0).Milliseconds(), Output: string(out), File: f}
			switch first {
			case "unsat":
				r.Status = "proved"
			case "sat":
				r.Status = "refuted"
				r.Model = map[string]string{"solver_model": truncate(string(out), 1500)}
			default:
				r.Status = "unknown"
			}
			if verbose {
				fmt.Fprintf(os.Stderr, "  %-9s %-8s %6dms  %s\n", r.Status, r.Backend, r.Ms, ob.Unit)
			}
			u := &unitRun{Unit: ob.Unit, Fc: &FuncContract{Name: "lemma:" + name, Props: []string{prop}}, G: &Gen{}, Results: []*Result{r}}
			u.G.assumptions = []string{"lemma " + name + " is stated over SMT-LIB strings; its premises (the key layouts) are what the contracts on the code prove; the correspondence is by reading"}
			res[fi] = u
		}(fi, f, data)
	}
	wg.Wait()
	var out []*unitRun
	for _, u := range res {
		if u != nil {
			out = append(out, u)
		}
	}
	return out
}

func contains(xs []string, x string) bool {
	for _, y := range xs {
		if y == x {
			return true
		}
	}
	return false
}

func die(code int, f string, a ...any) {
	fmt.Fprintf(os.Stderr, "govc: "+f+"\n", a...)
	os.Exit(code)
}

func runUnit(w *World, u *unitRun, tmp string, quickT, slowT int, verbose bool) {
	t0 := time.Now()
	dir := u.Unit[:strings.Index(u.Unit, ":")]
	pc := w.contracts[dir]
	if u.Fc.Trusted != "" {
		return
	}
	if strings.HasPrefix(u.Fc.Name, "lemma:") {
		// a lemma of the contract file: no code, one obligation; a function of the package supplies the type scope
		g := NewGen(w, w.findFunc(dir, u.Fc.Notes[0]), u.Fc, pc)
		g.unit = u.Unit
		u.G = g
		if err := g.RunLemma(strings.TrimPrefix(u.Fc.Name, "lemma:")); err != nil {
			u.Err = err
			return
		}
		u.GenMs = time.Since(t0).Milliseconds()
		u.Results = append(solveAll(tmp, g, g.Obligations(), quickT, slowT), u.lost...)
		return
	}
	fn := w.findFunc(dir, u.Fc.Name)
	if fn == nil {
		u.Err = fmt.Errorf("CONTRACT-ANCHOR-LOST %s: function not found", u.Unit)
		return
	}
	g := NewGen(w, fn, u.Fc, pc)
	g.unit = u.Unit
	u.G = g
	if len(u.Fc.RegionLoops) > 0 {
		// the function is verified only through its regions (one generator per region; results are concatenated)
		for _, n := range u.Fc.RegionLoops {
			rg := NewGen(w, fn, u.Fc, pc)
			rg.unit = fmt.Sprintf("%s[loop%d]", u.Unit, n)
			if err := rg.RunRegion(n); err != nil {
				u.Err = err
				return
			}
			if dumpOnly {
				for _, ob := range rg.Obligations() {
					fname := filepath.Join(tmp, sanitizeFile(ob.Unit+"__"+ob.Name)+".smt2")
					_ = os.WriteFile(fname, []byte(rg.Query(ob)), 0o644)
				}
				continue
			}
			rs := solveAll(tmp, rg, rg.Obligations(), quickT, slowT)
			u.Results = append(u.Results, rs...)
			for _, a := range rg.assumptions {
				g.addAssumption(a)
			}
			if verbose {
				for _, r := range rs {
					fmt.Fprintf(os.Stderr, "  %-9s %-8s %6dms  %s/%s\n", r.Status, r.Backend, r.Ms, r.Ob.Unit, r.Ob.Name)
				}
			}
		}
		g.addAssumption("region " + u.Unit + ": only the listed loops are verified, each as a region whose precondition is its loop invariant; that the invariant holds when the loop is first reached, and what the rest of the function does, is not verified")
		return
	}
	if os.Getenv("GOVC_ANCHORS") != "" {
		// print the anchors a contract can refer to: return ordinals (source order)
		for _, b := range fn.Blocks {
			for _, in := range b.Instrs {
				if r, ok := in.(*ssa.Return); ok {
					fmt.Fprintf(os.Stderr, "  anchor %s ret%d at line %d\n", u.Unit, retOrdinalOf(fn, r), w.fset.Position(r.Pos()).Line)
				}
			}
		}
	}
	if err := g.Run(); err != nil {
		// A contract error caused by a ghost whose anchoring call vanished from the code ("ghost x after F#N"):
		// the clauses that speak about x can no longer be generated - reported as failed obligations (a violation),
		// like lost `callsite ... requires` anchors, not as a machinery error.
		var lost []*Result
		unknownName := ""
		if mm := regexp.MustCompile(`unknown name "([^"]+)"`).FindStringSubmatch(err.Error()); mm != nil {
			unknownName = mm[1]
		}
		for _, gh := range u.Fc.Ghosts {
			if g.sitesSeen["ghost "+gh.Name+"@"+gh.Site] || gh.Name != unknownName {
				continue
			}
			word := regexp.MustCompile(`\b` + regexp.QuoteMeta(gh.Name) + `\b`)
			add := func(kind, name, src string) {
				ob := &Oblig{Unit: u.Unit, Name: kind + ":" + name, Kind: kind, Desc: "the call " + gh.Site + " whose result this clause speaks about (ghost " + gh.Name + ") is no longer made: " + src, Contractual: true, Props: u.Fc.Props}
				lost = append(lost, &Result{Ob: ob, Status: "anchor-lost", Backend: "structural", Output: "the function no longer contains call site " + gh.Site + " (ghost " + gh.Name + "); clause: " + src})
			}
			for i, c := range u.Fc.Ensures {
				if word.MatchString(c.Src) {
					add("post", clauseName(c, i), c.Src)
				}
			}
			for k, cs := range u.Fc.CallSites {
				for i, c := range cs.Requires {
					if word.MatchString(c.Src) {
						add("call-pre", k+"."+clauseName(c, i), c.Src)
					}
				}
			}
		}
		if len(lost) > 0 {
			u.Results = lost
			u.lostOnly = true
			return
		}
		u.Err = err
		return
	}
	if os.Getenv("GOVC_ANCHORS") != "" {
		// ... loop ordinals, call sites
		for _, li := range g.loopOfHeader {
			fmt.Fprintf(os.Stderr, "  anchor %s loop %d at line %d\n", u.Unit, li.ordinal, w.fset.Position(g.loopPos(li.header)).Line)
		}
		for name, c := range g.callCount {
			fmt.Fprintf(os.Stderr, "  anchor %s calls %s x%d\n", u.Unit, name, c)
		}
	}
	// loops named in the contract must exist
	for n := range u.Fc.Loops {
		found := false
		for _, li := range g.loopOfHeader {
			if li.ordinal == n {
				found = true
			}
		}
		if !found {
			u.Err = fmt.Errorf("CONTRACT-ANCHOR-LOST %s: loop %d not found", u.Unit, n)
			return
		}
	}
	// A call site that carries proof obligations (`callsite F#N requires ...`) and is no longer in the code: the
	// obligations cannot be discharged any more - reported as failed obligations (a violation), not as a machinery
	// error. A call site that only carries assumptions (modifies/ensures) is a stale contract: machinery error.
	var lost []*Result
	for k, cs := range u.Fc.CallSites {
		if !g.sitesSeen["callsite "+k] {
			if len(cs.Requires) == 0 {
				u.Err = fmt.Errorf("CONTRACT-ANCHOR-LOST %s: call site %s (callsite clause) not found", u.Unit, k)
				return
			}
			for i, c := range cs.Requires {
				ob := &Oblig{Unit: u.Unit, Name: "call-pre:" + k + "." + clauseName(c, i), Kind: "call-pre", Desc: "the call " + k + " that this clause constrains is no longer made: " + c.Src, Contractual: true, Props: u.Fc.Props}
				lost = append(lost, &Result{Ob: ob, Status: "anchor-lost", Backend: "structural", Output: "the function no longer contains call site " + k + "; the contract requires of that call: " + c.Src})
			}
		}
	}
	for _, gh := range u.Fc.Ghosts {
		if !g.sitesSeen["ghost "+gh.Name+"@"+gh.Site] {
			u.Err = fmt.Errorf("CONTRACT-ANCHOR-LOST %s: call site %s of ghost %s not found", u.Unit, gh.Site, gh.Name)
			return
		}
	}
	for _, a := range u.Fc.Asserts {
		if !g.assertsSeen[a.Name] {
			ob := &Oblig{Unit: u.Unit, Name: "assert:" + a.Name, Kind: "assert", Desc: "the call " + a.Site + " after which this assertion stands is no longer made: " + a.Src, Contractual: true, Props: u.Fc.Props}
			lost = append(lost, &Result{Ob: ob, Status: "anchor-lost", Backend: "structural", Output: "the function no longer contains call site " + a.Site + " (assertion " + a.Name + ": " + a.Src + ")"})
		}
	}
	u.lost = lost
	u.GenMs = time.Since(t0).Milliseconds()
	if dumpOnly {
		for _, ob := range g.Obligations() {
			fname := filepath.Join(tmp, sanitizeFile(ob.Unit+"__"+ob.Name)+".smt2")
			_ = os.WriteFile(fname, []byte(g.Query(ob)), 0o644)
		}
		fmt.Fprintf(os.Stderr, "%s: %d obligations dumped\n", u.Unit, len(g.Obligations()))
		return
	}
	t1 := time.Now()
	u.Results = append(solveAll(tmp, g, g.Obligations(), quickT, slowT), u.lost...)
	u.SolveMs = time.Since(t1).Milliseconds()
	if verbose {
		for _, r := range u.Results {
			fmt.Fprintf(os.Stderr, "  %-9s %-8s %6dms  %s/%s\n", r.Status, r.Backend, r.Ms, u.Unit, r.Ob.Name)
		}
	}
}

type finding struct {
	Prop, Oblig, What string
}

func loadFindings(path string) (findings []finding) {
	data, err := os.ReadFile(path)
	if err != nil {
		return nil
	}
	for _, line := range strings.Split(string(data), "\n") {
		line = strings.TrimSpace(line)
		if !strings.HasPrefix(line, "finding:") {
			continue
		}
		f := finding{}
		rest := strings.TrimSpace(strings.TrimPrefix(line, "finding:"))
		for _, kv := range strings.Fields(rest) {
			if strings.HasPrefix(kv, "property=") {
				f.Prop = strings.TrimPrefix(kv, "property=")
			}
			if strings.HasPrefix(kv, "obligation=") {
				f.Oblig = strings.TrimPrefix(kv, "obligation=")
			}
		}
		if i := strings.Index(rest, "what="); i >= 0 {
			f.What = rest[i+5:]
		}
		findings = append(findings, f)
	}
	return
}

func report(w *World, units []*unitRun, prop, tier, verif string, t0 time.Time, loadMs int64, noEvid, verbose bool) int {
	findings := loadFindings(filepath.Join(verif, "known-findings.txt"))
	total, discharged := 0, 0
	var failed []*Result
	var known []string
	var samples []map[string]any
	var funcs []string
	var trusted []string
	assumptions := map[string]bool{}
	backends := map[string]int{}
	var solverMs int64
	machineryErr := false
	uncontracted := map[string][]string{}
	for _, u := range units {
		if u.Fc.Trusted != "" {
			trusted = append(trusted, u.Unit+": "+u.Fc.Trusted)
			continue
		}
		if u.Err != nil {
			fmt.Fprintf(os.Stderr, "govc: ERROR %v\n", u.Err)
			// The unit's obligations could not be generated from the current source (a loop or call the contract
			// is anchored at is gone, a name it mentions no longer exists, the code left the verified subset). What
			// was discharged for this unit on the pinned tree can no longer be discharged: every contract clause of
			// the unit is reported as a failed obligation (status not-generated), i.e. a violation without a failing
			// input - not silently as a machinery error. (While developing a contract the ERROR line above says why.)
			if os.Getenv("GOVC_STRICT_ERRORS") != "" {
				machineryErr = true
				continue
			}
			mk := func(kind, name, src string) {
				ob := &Oblig{Unit: u.Unit, Name: kind + ":" + name, Kind: kind, Desc: src, Contractual: true, Props: u.Fc.Props}
				failed = append(failed, &Result{Ob: ob, Status: "not-generated", Backend: "structural", Output: "obligations of this unit could not be generated from the current source: " + u.Err.Error()})
				total++
			}
			n0 := len(failed)
			for i, c := range u.Fc.Ensures {
				mk("post", clauseName(c, i), c.Src)
			}
			for k, cs := range u.Fc.CallSites {
				for i, c := range cs.Requires {
					mk("call-pre", k+"."+clauseName(c, i), c.Src)
				}
			}
			for _, a := range u.Fc.Asserts {
				mk("assert", a.Name, a.Src)
			}
			for n, ls := range u.Fc.Loops {
				for i, c := range ls.Invariants {
					mk("inv", fmt.Sprintf("loop%d.%s", n, clauseName(c, i)), c.Src)
				}
				for i, c := range ls.Steps {
					mk("step", fmt.Sprintf("loop%d.%s", n, clauseName(c, i)), c.Src)
				}
			}
			if len(failed) == n0 {
				machineryErr = true
			}
			continue
		}
		funcs = append(funcs, u.Unit)
		for _, a := range u.G.assumptions {
			assumptions[a] = true
		}
		if len(u.Results) == 0 {
			fmt.Fprintf(os.Stderr, "govc: ERROR %s generated no obligations\n", u.Unit)
			machineryErr = true
		}
		if len(u.G.uncontracted) > 0 {
			fmt.Fprintf(os.Stderr, "govc: NOTE %s calls %v which have no contract: over-approximated (may modify anything, return anything)\n", u.Unit, u.G.uncontracted)
			uncontracted[u.Unit] = u.G.uncontracted
		}
		postSeen := map[string]bool{}
		var vacuous []*Result
		unitFailed := 0
		for _, r := range u.Results {
			total++
			solverMs += r.Ms
			backends[r.Backend]++
			if r.Ob.Kind == "post" {
				postSeen[strings.SplitN(r.Ob.Name, "@", 2)[0]] = true
			}
			if r.Ob.Kind == "cover" {
				// a cover query that is unsat means the point is dead: fine if the contract declares it
				// `unreachable` (then the unsat answer is the proof), a vacuity alarm otherwise; a declared
				// unreachable point that turns out reachable is an error of the contract as well
				declared := contains(u.Fc.Unreachable, strings.TrimPrefix(r.Ob.Name, "cover:"))
				switch {
				case r.Status == "vacuous" && declared:
					r.Status = "proved"
				case r.Status == "vacuous":
					fmt.Fprintf(os.Stderr, "govc: VACUITY %s/%s: the assumptions on the way to this point are contradictory (or the point is dead: declare it `unreachable`)\n", u.Unit, r.Ob.Name)
					machineryErr = true
				case declared && r.Status == "sat-ok" && r.Backend != "":
					// reachable or undecided although declared dead: only a definite `sat` is an error
					if strings.Contains(r.Output, "sat") && !strings.Contains(r.Output, "unsat") && !strings.Contains(r.Output, "unknown") {
						fmt.Fprintf(os.Stderr, "govc: ERROR %s/%s declared unreachable but it is reachable\n", u.Unit, r.Ob.Name)
						machineryErr = true
					}
				}
			}
			switch r.Status {
			case "proved", "sat-ok":
				discharged++
				if len(samples) < 12 && r.Backend != "trivial" {
					samples = append(samples, map[string]any{"obligation": u.Unit + "/" + r.Ob.Name, "kind": r.Ob.Kind, "backend": r.Backend, "ms": r.Ms, "clause": r.Ob.Desc})
				}
			default:
				isKnown := false
				for _, f := range findings {
					if f.Prop == prop && f.Oblig == u.Unit+"/"+r.Ob.Name {
						isKnown = true
						known = append(known, fmt.Sprintf("KNOWN-FINDING: property=%s %s/%s %s", prop, u.Unit, r.Ob.Name, f.What))
					}
				}
				if isKnown {
					discharged++ // accounted for, not counted as a violation
					continue
				}
				if r.Status == "vacuous" {
					vacuous = append(vacuous, r)
				} else {
					failed = append(failed, r)
					unitFailed++
				}
			}
		}
		// a dead point is reported only if nothing else failed in the unit: a refuted cut (assert) is assumed
		// afterwards, so everything behind it is dead as a consequence and would only repeat the report
		if unitFailed == 0 {
			failed = append(failed, vacuous...)
		}
		// every ensures clause must have produced at least one obligation
		for i, c := range u.Fc.Ensures {
			if u.lostOnly {
				break
			}
			if !postSeen["post:"+clauseName(c, i)] {
				fmt.Fprintf(os.Stderr, "govc: ERROR %s: ensures clause %s generated no obligation (no return reached)\n", u.Unit, clauseName(c, i))
				machineryErr = true
			}
		}
	}
	for _, k := range known {
		fmt.Println(k)
	}
	code := 0
	if len(failed) > 0 {
		code = 1
		rdir := filepath.Join(verif, "replays", prop)
		_ = os.MkdirAll(rdir, 0o755)
		for _, r := range failed {
			path := filepath.Join(rdir, sanitizeFile(r.Ob.Unit+"__"+r.Ob.Name)+".json")
			rep := map[string]any{
				"property": prop, "unit": r.Ob.Unit, "obligation": r.Ob.Name, "kind": r.Ob.Kind, "clause": r.Ob.Desc,
				"position": r.Ob.Pos, "status": r.Status, "backend": r.Backend, "solver_output": truncate(r.Output, 4000), "model": r.Model,
			}
			if uc := uncontracted[strings.SplitN(r.Ob.Unit, "[", 2)[0]]; len(uc) > 0 {
				rep["uncontracted_callees"] = uc
				rep["note"] = "the function calls callees that have no contract; they were over-approximated (may modify anything, return anything)"
			}
			suffix := ""
			reproduced := false
			reproduced = tryReplay(w, r, rep)
			if !reproduced {
				suffix = " no-failing-input-found"
			}
			data, _ := json.MarshalIndent(rep, "", " ")
			_ = os.WriteFile(path, data, 0o644)
			fmt.Printf("VIOLATION property=%s replay=%s obligation=%s/%s status=%s%s\n", prop, path, r.Ob.Unit, r.Ob.Name, r.Status, suffix)
		}
	}
	if machineryErr && code == 0 {
		code = 2
	}
	if !noEvid && prop != "" {
		var as []string
		for a := range assumptions {
			as = append(as, a)
		}
		sort.Strings(as)
		for _, t := range trusted {
			as = append(as, "trusted contract (body not verified): "+t)
		}
		as = append(as, "soundness of the govc SSA-to-SMT translation and of the SMT solvers (z3 4.8.12, z3 5.1.0, cvc5 1.0.3)",
			"sync.Mutex/RWMutex provide mutual exclusion; Go memory model; no data races on state guarded by the locks the code takes")
		var be []string
		for b, n := range backends {
			be = append(be, fmt.Sprintf("%s=%d", b, n))
		}
		sort.Strings(be)
		ev := map[string]any{
			"property_id": prop,
			"tier":        tier,
			"seed":        0,
			"level":       "proof",
			"coverage": map[string]any{
				"obligations":              total,
				"discharged":               discharged,
				"checker_cmd":              fmt.Sprintf("./check %s %s", prop, tier),
				"trusted_base":             as,
				"functions_under_contract": funcs,
				"backends":                 be,
				"solver_time_s":            float64(solverMs) / 1000,
				"samples":                  samples,
				"known_findings_hit":       known,
				"failed":                   len(failed),
				"load_ms":                  loadMs,
			},
			"assumptions": as,
			"wall_s":      time.Since(t0).Seconds(),
			"violations":  len(failed),
		}
		data, _ := json.MarshalIndent(ev, "", " ")
		_ = os.MkdirAll(filepath.Join(verif, "evidence"), 0o755)
		_ = os.WriteFile(filepath.Join(verif, "evidence", prop+".json"), data, 0o644)
	}
	fmt.Fprintf(os.Stderr, "govc: property=%s units=%d obligations=%d discharged=%d failed=%d known=%d wall=%.1fs\n", prop, len(funcs), total, discharged, len(failed), len(known), time.Since(t0).Seconds())
	return code
}

func truncate(s string, n int) string {
	if len(s) > n {
		return s[:n] + "…"
	}
	return s
}

// tryReplay runs the replay driver of the unit, if there is one: an in-package Go test kept under
// /verif/replaydrivers/<pkgdir>/<name>_test.go.txt that is injected with `go test -overlay` (nothing is written
// into /repo). The driver receives the failed obligation and the solver's (candidate) model, concretises it
// into real inputs, calls the real function and evaluates the violated clause with an executable oracle.
// It prints `REPRODUCED: <input>` when the real code violates the clause.
func tryReplay(w *World, r *Result, rep map[string]any) bool {
	unit := r.Ob.Unit
	i := strings.Index(unit, ":")
	if i < 0 {
		return false
	}
	dir, fn := unit[:i], unit[i+1:]
	driver := filepath.Join(verifRoot, "replaydrivers", dir, sanitizeFile(fn)+"_test.go.txt")
	if _, err := os.Stat(driver); err != nil {
		rep["replay"] = "no replay driver for this unit"
		return false
	}
	tmp, err := os.MkdirTemp("", "govc-replay-")
	if err != nil {
		return false
	}
	defer os.RemoveAll(tmp)
	model, _ := json.Marshal(r.Model)
	modelPath := filepath.Join(tmp, "model.json")
	_ = os.WriteFile(modelPath, model, 0o644)
	target := filepath.Join(w.repo, dir, "zz_govc_replay_test.go")
	repl := map[string]string{target: driver}
	for k, v := range overlayFiles { // a mutant under test (-overlay) is replayed against the mutated source
		repl[k] = v
	}
	ov, _ := json.Marshal(map[string]any{"Replace": repl})
	ovPath := filepath.Join(tmp, "overlay.json")
	_ = os.WriteFile(ovPath, ov, 0o644)
	cmd := exec.Command("go", "test", "-overlay", ovPath, "-vet=off", "-v", "-count=1", "-timeout", "120s", "-run", "^TestGovcReplay$", ".")
	cmd.Dir = filepath.Join(w.repo, dir)
	cmd.Env = append(goEnv(), "GOVC_OBLIGATION="+r.Ob.Name, "GOVC_MODEL="+modelPath, "GOVC_KIND="+r.Ob.Kind)
	out, _ := cmd.CombinedOutput()
	text := string(out)
	rep["replay_cmd"] = "cd " + cmd.Dir + " && GOVC_OBLIGATION='" + r.Ob.Name + "' go test -overlay <driver overlay> -vet=off -run ^TestGovcReplay$ ."
	rep["replay_output"] = truncate(text, 3000)
	for _, l := range strings.Split(text, "\n") {
		if j := strings.Index(l, "REPRODUCED:"); j >= 0 && !strings.Contains(l, "NOT-REPRODUCED") {
			rep["reproduced"] = true
			rep["failing_input"] = strings.TrimSpace(l[j+len("REPRODUCED:"):])
			return true
		}
	}
	rep["reproduced"] = false
	return false
}
