module govc

go 1.25.0

require (
	github.com/centrifugal/centrifuge v0.0.0
	golang.org/x/tools v0.29.0
)

require (
	golang.org/x/mod v0.22.0 // indirect
	golang.org/x/sync v0.22.0 // indirect
)

replace github.com/centrifugal/centrifuge => /repo
