package main

import (
	"fmt"
	"go/token"
	"go/types"
	"math/big"
	"os"
	"regexp"
	"sort"
	"strings"

	"golang.org/x/tools/go/ssa"
)

// callee naming: static functions by ssa String() with the repository module prefix removed
// ("(*internal/queue.Queue).resize" -> contracts are looked up by package dir + RelString).
func (g *Gen) calleeName(c *ssa.CallCommon) string {
	if c.IsInvoke() {
		return "invoke " + g.typeName(c.Value.Type()) + "." + c.Method.Name()
	}
	switch f := c.Value.(type) {
	case *ssa.Function:
		return shortFuncName(f)
	case *ssa.Builtin:
		return f.Name()
	case *ssa.MakeClosure:
		return shortFuncName(f.Fn.(*ssa.Function))
	}
	return "dynamic " + g.typeName(c.Value.Type())
}

// siteOrdinal: the ordinal of a call instruction of the function under verification among the calls to the same
// callee, counted in source order (position of the call; instructions without a position keep their SSA order after
// the positioned ones). Instructions of other functions (inlined closure bodies) are not numbered here.
func (g *Gen) siteOrdinal(in ssa.Instruction) (int, bool) {
	if g.siteOrd == nil {
		g.siteOrd = map[ssa.Instruction]int{}
		type ent struct {
			in       ssa.Instruction
			pos      token.Pos
			blk, idx int
		}
		by := map[string][]ent{}
		for _, b := range g.fn.Blocks {
			for i, ins := range b.Instrs {
				cc, ok := ins.(ssa.CallInstruction)
				if !ok {
					continue
				}
				n := g.calleeName(cc.Common())
				if _, isGo := ins.(*ssa.Go); isGo {
					n = "go " + n
				}
				p := ins.Pos()
				if p == token.NoPos {
					p = token.Pos(1 << 40)
				}
				by[n] = append(by[n], ent{ins, p, b.Index, i})
			}
		}
		for _, es := range by {
			sort.SliceStable(es, func(a, b int) bool {
				if es[a].pos != es[b].pos {
					return es[a].pos < es[b].pos
				}
				if es[a].blk != es[b].blk {
					return es[a].blk < es[b].blk
				}
				return es[a].idx < es[b].idx
			})
			for k, e := range es {
				g.siteOrd[e.in] = k + 1
			}
		}
	}
	o, ok := g.siteOrd[in]
	return o, ok
}

func (g *Gen) markSite(k string) {
	if g.sitesSeen == nil {
		g.sitesSeen = map[string]bool{}
	}
	g.sitesSeen[k] = true
}

// lockLoc: the location of a mutex given the receiver of Lock/Unlock (a pointer to a struct field or to a mutex).
func (g *Gen) lockLoc(recv Val) (p Ptr, ok bool) {
	defer func() {
		if r := recover(); r != nil {
			ok = false
		}
	}()
	p = g.ptrOf(recv)
	if len(p.Idx) == 0 {
		return p, false
	}
	return p, true
}

func shortFuncName(f *ssa.Function) string {
	s := f.String()
	s = strings.ReplaceAll(s, "github.com/centrifugal/centrifuge/", "")
	s = strings.ReplaceAll(s, "github.com/centrifugal/", "")
	// a package whose name differs from the last element of its import path (fossil-delta is package fdelta) is
	// written with its declared name in contracts, as in the source
	if f.Pkg != nil && f.Pkg.Pkg != nil {
		path, name := f.Pkg.Pkg.Path(), f.Pkg.Pkg.Name()
		if i := strings.LastIndex(path, "/"); i >= 0 && path[i+1:] != name && !strings.HasPrefix(path, "github.com/centrifugal/centrifuge") {
			s = strings.ReplaceAll(s, path, path[:i+1]+name)
		}
	}
	return s
}

func (g *Gen) isListed(list []string, name string) bool {
	for _, l := range list {
		if l == name || siteMatches(name, l) {
			return true
		}
		// generic instantiations: match the part before '['
		if i := strings.Index(name, "["); i > 0 && l == name[:i] {
			return true
		}
		if strings.HasSuffix(l, "*") && strings.HasPrefix(name, strings.TrimSuffix(l, "*")) {
			return true
		}
	}
	return false
}

// builtinPure: callees that only synchronise, log or count; treated as having no effect on verified state.
// Each use is recorded as an assumption.
var builtinPure = []string{
	"(*sync.Mutex).Lock", "(*sync.Mutex).Unlock", "(*sync.RWMutex).Lock", "(*sync.RWMutex).Unlock",
	"(*sync.RWMutex).RLock", "(*sync.RWMutex).RUnlock", "(*sync.Cond).Signal", "(*sync.Cond).Broadcast",
	"(*sync.Mutex).TryLock",
}

func (g *Gen) call(in ssa.Instruction, c *ssa.CallCommon, rt types.Type) Val {
	v := g.callInner(in, c, rt)
	if os.Getenv("GOVC_COVER") == "all" {
		n := g.calleeName(c)
		g.cover(fmt.Sprintf("after:%s#%d", n, g.callCount[n]))
	}
	if g.fc != nil {
		name := g.calleeName(c)
		site := fmt.Sprintf("%s#%d", name, g.callCount[name])
		for _, gh := range g.fc.Ghosts {
			if siteMatches(site, gh.Site) {
				g.markSite("ghost " + gh.Name + "@" + gh.Site)
				if er, ok := gh.Expr.(*EResult); ok {
					// `ghost x after f#n = result` names the value this very call returned
					rv := v
					if er.N >= 0 && er.N < len(v.Fs) {
						rv = v.Fs[er.N]
					}
					if g.ghostVals == nil {
						g.ghostVals = map[string]Val{}
					}
					g.ghostVals[gh.Name] = rv
					g.ghostDefs = append(g.ghostDefs, ghostDef{gh.Name, g.curBlock, rv, false})
					continue
				}
				g.pendingGhosts = append(g.pendingGhosts, gh)
				if g.pendingGhostRes == nil {
					g.pendingGhostRes = map[string]Val{}
				}
				g.pendingGhostRes[gh.Name] = v
			}
		}
		for _, a := range g.fc.Asserts {
			if siteMatches(site, a.Site) {
				g.pendingAsserts = append(g.pendingAsserts, a)
				if g.assertsSeen == nil {
					g.assertsSeen = map[string]bool{}
				}
				g.assertsSeen[a.Name] = true
			}
		}
	}
	return v
}

// siteMatches: a call site written in a contract may omit the package qualifier of the callee.
func siteMatches(full, spec string) bool {
	if full == spec {
		return true
	}
	// import paths are reduced to their last element: internal/convert.BytesToString -> convert.BytesToString
	a := lastPkgElem(full)
	if a == spec {
		return true
	}
	// functions and methods of the package under verification may be written without qualifier
	if curPkgName != "" {
		if strings.ReplaceAll(a, curPkgName+".", "") == spec {
			return true
		}
	}
	return false
}

// curPkgName: name of the package whose function is being verified (set per unit; verification is sequential).
var curPkgName string

var _ = regexp.MustCompile

func (g *Gen) callInner(in ssa.Instruction, c *ssa.CallCommon, rt types.Type) Val {
	name := g.calleeName(c)
	if ord, ok := g.siteOrdinal(in); ok {
		// call sites are numbered per callee in SOURCE order (like return statements and loops)
		g.callCount[name] = ord
	} else {
		g.callCount[name]++
	}
	var args []Val
	if c.IsInvoke() {
		args = append(args, g.val(c.Value))
	}
	for _, a := range c.Args {
		args = append(args, g.val(a))
	}
	pos := in.Pos()
	if g.fc != nil && g.fc.TrackLocks && len(args) > 0 {
		// ghost "held" bit of the mutex location (only in units that ask for it with `track-locks`)
		switch name {
		case "(*sync.Mutex).Lock", "(*sync.RWMutex).Lock", "(*sync.Mutex).Unlock", "(*sync.RWMutex).Unlock":
			if p, ok := g.lockLoc(args[0]); ok {
				hn := "held:" + p.Prefix
				cur := g.heapGet(g.heap, hn, "(Array Int Bool)")
				val := "true"
				if strings.HasSuffix(name, "Unlock") {
					val = "false"
				}
				g.heap = g.heap.clone()
				g.heapSet(g.heap, hn, "(Array Int Bool)", "(store "+cur+" "+p.Idx[0]+" "+val+")")
				if val == "true" && len(g.fc.RelockHavoc) > 0 {
					// interference at re-acquisition (track-locks relock-havoc): if this mutex was acquired before on
					// this path, the listed heaps take arbitrary contents
					an := "held:acq:" + p.Prefix
					acq := g.heapGet(g.heap, an, "(Array Int Bool)")
					was := "(select " + acq + " " + p.Idx[0] + ")"
					if g.entryAcq == nil {
						g.entryAcq = map[string]bool{}
					}
					if !g.entryAcq[an] {
						// no acquisition has happened before the function's first instruction
						g.entryAcq[an] = true
						g.assume("true", "(forall ((i Int)) (! (not (select "+g.heapGet(g.heap0, an, "(Array Int Bool)")+" i)) :pattern ((select "+g.heapGet(g.heap0, an, "(Array Int Bool)")+" i))))")
					}
					var names []string
					for n := range g.heapSorts {
						names = append(names, n)
					}
					sort.Strings(names)
					for _, n := range names {
						if !g.relockHeap(n) {
							continue
						}
						curH := g.heapGet(g.heap, n, g.heapSorts[n])
						fresh := g.freshHeap("Hr:", n, g.heapSorts[n])
						g.heapSet(g.heap, n, g.heapSorts[n], g.define("relock", g.heapSorts[n], ite(was, fresh, curH)))
					}
					g.heapSet(g.heap, an, "(Array Int Bool)", "(store "+acq+" "+p.Idx[0]+" true)")
					g.addAssumption("relock-havoc: when a mutex is re-acquired the heaps of " + strings.Join(g.fc.RelockHavoc, ", ") + " take arbitrary contents (interference by other goroutines between critical sections)")
				}
				g.addAssumption("track-locks: Lock/Unlock only set a ghost held bit (mutual exclusion itself is assumed); code without contract called in between is assumed not to release or take the caller's locks")
				return Val{K: kUntyped}
			}
		}
	}
	if b, ok := c.Value.(*ssa.Builtin); ok {
		return g.builtin(b.Name(), c, args, rt, pos)
	}
	if v, ok := g.intrinsic(name, c, args, rt, pos); ok {
		return v
	}
	// contract of a repository function or an extern contract
	if fc, pc, params, pkg := g.w.lookupContract(g, c, name); fc != nil {
		if g.fc != nil && g.fc.CallSites != nil {
			// the caller may state what it hands to this call (`callsite F#N requires`): checked in addition to the
			// callee's own precondition; the callee's contract, not the callsite clause, describes the effect
			site := fmt.Sprintf("%s#%d", name, g.callCount[name])
			for k, cs := range g.fc.CallSites {
				if siteMatches(site, k) {
					g.markSite("callsite " + k)
				}
				if siteMatches(site, k) && len(cs.Requires) > 0 {
					g.callSiteRequires(cs, site, c, pos)
				}
			}
		}
		if mc, ok := c.Value.(*ssa.MakeClosure); ok {
			// the closure's contract names its captured variables: bind them to the captured addresses
			saved := g.freeVars
			g.freeVars = map[string]Val{}
			for i, fv := range mc.Fn.(*ssa.Function).FreeVars {
				g.freeVars[fv.Name()] = g.val(mc.Bindings[i])
			}
			defer func() { g.freeVars = saved }()
		}
		return g.applyContract(fc, pc, pkg, params, args, rt, name, pos)
	}
	if g.fc != nil && g.fc.CallSites != nil {
		site := fmt.Sprintf("%s#%d", name, g.callCount[name])
		for k, cs := range g.fc.CallSites {
			if siteMatches(site, k) {
				g.markSite("callsite " + k)
				return g.applyCallSite(cs, site, c, rt, pos)
			}
		}
	}
	result := func() Val {
		if rt == nil {
			return Val{}
		}
		v := g.freshVal("ret:"+name, rt)
		g.typeFacts(g.curReach, v)
		return v
	}
	if g.isListed(builtinPure, name) {
		g.addAssumption("lock/condition primitive " + name + " has no effect on verified state (lock atomicity assumed)")
		return result()
	}
	if g.fc != nil && g.isListed(g.fc.Pure, name) {
		g.addAssumption("callee " + name + " assumed side-effect free; result unconstrained")
		return result()
	}
	if g.fc != nil && g.isListed(g.fc.Havoc, name) {
		g.addAssumption("callee " + name + " abstracted: may change any heap location; result unconstrained")
		g.frameCheckAll(pos, name)
		g.havocEverything(name)
		return result()
	}
	if os.Getenv("GOVC_STRICT_CALLS") != "" {
		panic(unsupported("call to %s has no contract (add a contract, or `assume pure`/`assume havoc`)", name))
	}
	// A callee without contract (typically: the code changed and now calls something else): over-approximate it -
	// it may change every heap location not protected by the frame and returns anything. Obligations that depend
	// on what it does then fail and are reported; obligations that do not, still hold.
	g.uncontracted = append(g.uncontracted, name)
	g.havocEverything(name) // (the frame is then checked, and fails where restricted, at the function's returns)
	return result()
}

func (g *Gen) builtin(name string, c *ssa.CallCommon, args []Val, rt types.Type, pos token.Pos) Val {
	switch name {
	case "len", "cap":
		v := args[0]
		switch {
		case v.K == kSlice:
			if name == "len" {
				return sv(rt, v.Len)
			}
			return sv(rt, v.Cap)
		case isString(v.T):
			return sv(rt, "(slen "+v.S+")")
		}
		if mt, ok := v.T.Underlying().(*types.Map); ok {
			env := g.baseEnv()
			env.heap = g.heap
			_, ln, _, _ := g.mapHeaps(env, mt)
			r := sv(rt, g.define("maplen", g.idxSort(), ite(eq(v.S, "0"), g.idxConst(0), sel(ln, v.S))))
			g.assume(g.curReach, g.idxLe(g.idxConst(0), r.S))
			return r
		}
		if _, ok := v.T.Underlying().(*types.Chan); ok {
			r := g.freshVal("chanlen", rt)
			g.typeFacts(g.curReach, r)
			g.assume(g.curReach, g.idxLe(g.idxConst(0), r.S))
			return r
		}
		panic(unsupported("%s of %s", name, v.T))
	case "append":
		return g.appendOp(args[0], args[1], rt, pos)
	case "copy":
		return g.copyOp(args[0], args[1], rt, pos)
	case "delete":
		mt := c.Args[0].Type().Underlying().(*types.Map)
		g.frameCheck(Ptr{Prefix: "map:" + g.typeName(mt) + "#dom", Idx: []string{args[0].S}, T: types.Typ[types.Bool]}, pos)
		g.mapDelete(args[0], mt, g.keyCoerce(args[1], mt.Key()))
		return Val{}
	case "min", "max":
		a, b := args[0], args[1]
		op := "<="
		if name == "max" {
			op = ">="
		}
		return sv(rt, g.define(name, g.scalarSort(rt), ite(g.intCmp(op, a.S, b.S, rt), a.S, b.S)))
	case "close":
		g.addAssumption("close(chan) not modelled")
		return Val{}
	}
	panic(unsupported("builtin %s", name))
}

func (g *Gen) elemHeaps(et types.Type) (names, sorts, leafSorts []string) {
	for _, l := range g.leaves(et) {
		g.noteLeaf("[]"+g.typeName(et)+l.Path, l, 2)
		names = append(names, "[]"+g.typeName(et)+l.Path)
		sorts = append(sorts, g.heapSort(l.Sort, 2))
		leafSorts = append(leafSorts, l.Sort)
	}
	return
}

func (g *Gen) smallConstLen(term string) (int, bool) {
	for k := 0; k <= 4; k++ {
		if term == g.idxConst(int64(k)) {
			return k, true
		}
	}
	return 0, false
}

func (g *Gen) appendOp(s, t Val, rt types.Type, pos token.Pos) Val {
	st := rt.Underlying().(*types.Slice)
	et := st.Elem()
	s = g.coerce(s, rt)
	var tLen, tArr, tOff string
	strSrc := ""
	if t.K == kSlice {
		tLen, tArr, tOff = t.Len, t.Arr, t.Off
	} else if t.K == kScalar && isString(t.T) { // append([]byte, string...)
		tLen = "(slen " + t.S + ")"
		strSrc = t.S
	} else {
		t = g.coerce(t, rt)
		tLen, tArr, tOff = t.Len, t.Arr, t.Off
	}
	g.witness(s.Len, intT)
	n := g.define("applen", g.idxSort(), g.idxAdd(s.Len, tLen))
	if g.mode == "int" {
		g.assume(g.curReach, g.idxLe(n, "9223372036854775807"))
	} else {
		g.assume(g.curReach, g.idxLe(s.Len, n))
	}
	fits := g.define("appfits", "Bool", g.idxLe(n, s.Cap))
	newArr := g.newRef("apparr")
	newCap := g.fresh("appcap", g.idxSort())
	g.assume(g.curReach, g.idxLe(n, newCap))
	if g.mode == "bv" {
		g.assume(g.curReach, g.idxLe(newCap, bvConst(new(big.Int).Lsh(big.NewInt(1), 48), 64)))
	}
	resArr := g.define("resarr", "Int", ite(fits, s.Arr, newArr))
	z := g.idxConst(0)
	resOff := g.define("resoff", g.idxSort(), ite(fits, s.Off, z))
	resCap := g.define("rescap", g.idxSort(), ite(fits, s.Cap, newCap))
	// in-place append writes into the existing backing array: frame check guarded by `fits` and non-empty
	names, sorts, leafSorts := g.elemHeaps(et)
	if len(names) > 0 {
		save := g.curReach
		g.curReach = and(save, fits, not(eq(tLen, z)))
		g.frameCheckSpan("[]"+g.typeName(et), et, s.Arr, g.elemIdx(s.Off, s.Len), g.elemIdx(s.Off, g.idxSub(n, g.idxConst(1))), pos)
		g.curReach = save
	}
	k, small := g.smallConstLen(tLen)
	noContent := g.fc != nil && contains(g.fc.NoContent, "[]"+g.typeName(et))
	if noContent {
		g.addAssumption("contents of []" + g.typeName(et) + " slices are not tracked in " + g.fc.Name + " (only lengths): appended elements become arbitrary (sound over-approximation)")
	}
	for i, hn := range names {
		E := g.heapGet(g.heap, hn, sorts[i])
		elemSort := "(Array " + g.idxSort() + " " + leafSorts[i] + ")"
		if noContent {
			g.heapSet(g.heap, hn, sorts[i], "(store "+E+" "+resArr+" "+g.fresh("apparrv", elemSort)+")")
			continue
		}
		oldDst := g.define("appold", elemSort, sel(E, s.Arr))
		var newA string
		if small && strSrc == "" {
			// explicit stores
			newA = ite(fits, oldDst, oldDst) // base: for the fresh array the prefix equals the old prefix (stated below)
			base := oldDst
			na := base
			for j := 0; j < k; j++ {
				src := sel(E, tArr, g.elemIdx(tOff, g.idxConst(int64(j))))
				na = "(store " + na + " " + g.elemIdx(resOff, g.idxAdd(s.Len, g.idxConst(int64(j)))) + " " + src + ")"
			}
			if k == 0 {
				newA = oldDst
			}
			// when not fitting: new array = copy of old prefix (shifted to offset 0) then the new elements
			fa := g.fresh("apparrv", elemSort)
			q := g.qvar()
			// fresh array: elements [0,len(s)) copied
			g.assume(g.curReach, fmt.Sprintf("(forall ((%s %s)) (! (=> %s (= (select %s %s) (select %s %s))) :pattern ((select %s %s)) :qid app_small))",
				q, g.idxSort(), and(g.idxLe(z, q), g.idxLt(q, s.Len)), fa, q, oldDst, g.elemIdx(s.Off, q), fa, q))
			nb := fa
			for j := 0; j < k; j++ {
				src := sel(E, tArr, g.elemIdx(tOff, g.idxConst(int64(j))))
				nb = "(store " + nb + " " + g.idxAdd(s.Len, g.idxConst(int64(j))) + " " + src + ")"
			}
			newA = ite(fits, na, nb)
		} else {
			// The new content of the result's backing array is a fresh array `fa` described by index-relative
			// axioms (k = position within the result slice). All of them rewrite to existing terms when chained
			// (len+k-len simplifies to k), so they do not form a matching loop.
			fa := g.fresh("apparrv", elemSort)
			k := g.qvar()
			is := g.idxSort()
			wit := func(t string) string {
				if g.mode != "int" {
					return "true"
				}
				return "(" + g.witFn(intT) + " " + t + ")"
			}
			var tAt func(rel string) string
			if strSrc != "" {
				tAt = func(rel string) string { return "(sat " + strSrc + " " + rel + ")" }
			} else {
				tAt = func(rel string) string { return sel(E, tArr, g.elemIdx(tOff, rel)) }
			}
			resAt := func(rel string) string { return sel(fa, g.elemIdx(resOff, rel)) }
			// (1) seen from the result: element k is s[k] for k < len(s), else t[k-len(s)]
			g.assume(g.curReach, fmt.Sprintf("(forall ((%s %s)) (! (=> %s (and (= %s %s) %s)) :pattern (%s) :qid app_def))",
				k, is, and(g.idxLe(z, k), g.idxLt(k, n)), resAt(k),
				ite(g.idxLt(k, s.Len), sel(oldDst, g.elemIdx(s.Off, k)), tAt(g.idxSub(k, s.Len))), and(wit(k), wit(g.idxSub(k, s.Len))), resAt(k)))
			// (2) an in-place append leaves every other position of the backing array alone
			q := g.qvar()
			g.assume(g.curReach, fmt.Sprintf("(forall ((%s %s)) (! (=> %s (= (select %s %s) (select %s %s))) :pattern ((select %s %s)) :qid app_frame))",
				q, is, and(fits, or(g.idxLt(q, resOff), g.idxLe(g.idxAdd(resOff, n), q))), fa, q, oldDst, q, fa, q))
			if strSrc == "" {
				// (3) seen from the appended slice: t[k] sits at position len(s)+k
				k3 := g.qvar()
				g.assume(g.curReach, fmt.Sprintf("(forall ((%s %s)) (! (=> %s (and (= %s %s) %s)) :pattern (%s) :qid app_src))",
					k3, is, and(g.idxLe(z, k3), g.idxLt(k3, tLen)), resAt(g.idxAdd(s.Len, k3)), tAt(k3), wit(g.idxAdd(s.Len, k3)), tAt(k3)))
			}
			// (4) seen from the old slice: s[k] stays at position k
			k4 := g.qvar()
			g.assume(g.curReach, fmt.Sprintf("(forall ((%s %s)) (! (=> %s (and (= %s %s) %s)) :pattern (%s) :qid app_old))",
				k4, is, and(g.idxLe(z, k4), g.idxLt(k4, s.Len)), resAt(k4), sel(oldDst, g.elemIdx(s.Off, k4)), wit(k4), sel(oldDst, g.elemIdx(s.Off, k4))))
			newA = fa
		}
		g.heapSet(g.heap, hn, sorts[i], "(store "+E+" "+resArr+" "+newA+")")
	}
	return Val{K: kSlice, T: rt, Arr: resArr, Off: resOff, Len: n, Cap: resCap}
}

func (g *Gen) copyOp(dst, src Val, rt types.Type, pos token.Pos) Val {
	et := dst.T.Underlying().(*types.Slice).Elem()
	var srcLen string
	strSrc := ""
	if src.K == kSlice {
		srcLen = src.Len
	} else {
		srcLen = "(slen " + src.S + ")"
		strSrc = src.S
	}
	n := g.define("copyn", g.idxSort(), ite(g.idxLe(dst.Len, srcLen), dst.Len, srcLen))
	z := g.idxConst(0)
	if dst.P != nil {
		// destination is arr[:] of a small array embedded in a struct (see slice): element-wise conditional stores
		at := dst.P.T.Underlying().(*types.Array)
		if src.K != kSlice {
			panic(unsupported("copy from string into an embedded array"))
		}
		_, ssorts, _ := g.elemHeaps(et)
		snames, _, _ := g.elemHeaps(et)
		if len(snames) != 1 {
			panic(unsupported("copy into an embedded array of composite elements"))
		}
		E := g.heapGet(g.heap, snames[0], ssorts[0])
		g.frameCheck(Ptr{Prefix: dst.P.Prefix, Idx: append(append([]string{}, dst.P.Idx...), z), T: et}, pos)
		for j := int64(0); j < at.Len(); j++ {
			jc := g.idxConst(j)
			ep := Ptr{Prefix: dst.P.Prefix, Idx: append(append([]string{}, dst.P.Idx...), jc), T: et}
			old := g.load(g.heap, ep)
			nv := ite(g.idxLt(jc, n), sel(E, src.Arr, g.elemIdx(src.Off, jc)), old.S)
			g.store(g.heap, ep, sv(et, nv))
		}
		return sv(rt, n)
	}
	names, sorts, leafSorts := g.elemHeaps(et)
	save := g.curReach
	g.curReach = and(save, not(eq(n, z)))
	g.frameCheckSpan("[]"+g.typeName(et), et, dst.Arr, dst.Off, g.elemIdx(dst.Off, g.idxSub(n, g.idxConst(1))), pos)
	g.curReach = save
	for i, hn := range names {
		E := g.heapGet(g.heap, hn, sorts[i])
		elemSort := "(Array " + g.idxSort() + " " + leafSorts[i] + ")"
		fa := g.fresh("copyarr", elemSort)
		is := g.idxSort()
		wit := func(t string) string {
			if g.mode != "int" {
				return "true"
			}
			return "(" + g.witFn(intT) + " " + t + ")"
		}
		var srcAt func(rel string) string
		if strSrc != "" {
			srcAt = func(rel string) string { return "(sat " + strSrc + " " + rel + ")" }
		} else {
			srcAt = func(rel string) string { return sel(E, src.Arr, g.elemIdx(src.Off, rel)) }
		}
		dstAt := func(rel string) string { return sel(fa, g.elemIdx(dst.Off, rel)) }
		k := g.qvar()
		g.assume(g.curReach, fmt.Sprintf("(forall ((%s %s)) (! (=> %s (and (= %s %s) %s)) :pattern (%s) :qid copy_def))",
			k, is, and(g.idxLe(z, k), g.idxLt(k, n)), dstAt(k), srcAt(k), wit(k), dstAt(k)))
		q := g.qvar()
		g.assume(g.curReach, fmt.Sprintf("(forall ((%s %s)) (! (=> %s (= (select %s %s) (select (select %s %s) %s))) :pattern ((select %s %s)) :qid copy_frame))",
			q, is, or(g.idxLt(q, dst.Off), g.idxLe(g.idxAdd(dst.Off, n), q)), fa, q, E, dst.Arr, q, fa, q))
		if strSrc == "" {
			k3 := g.qvar()
			g.assume(g.curReach, fmt.Sprintf("(forall ((%s %s)) (! (=> %s (and (= %s %s) %s)) :pattern (%s) :qid copy_src))",
				k3, is, and(g.idxLe(z, k3), g.idxLt(k3, n)), dstAt(k3), srcAt(k3), wit(k3), srcAt(k3)))
		}
		g.heapSet(g.heap, hn, sorts[i], "(store "+E+" "+dst.Arr+" "+fa+")")
	}
	if rt == nil {
		return Val{}
	}
	return sv(rt, n)
}

// intrinsic models of standard-library functions that are defined exactly.
func (g *Gen) intrinsic(name string, c *ssa.CallCommon, args []Val, rt types.Type, pos token.Pos) (Val, bool) {
	switch name {
	case "math/bits.Len32", "math/bits.LeadingZeros32", "math/bits.Len64", "math/bits.LeadingZeros64", "math/bits.Len", "math/bits.LeadingZeros":
		if g.mode != "bv" {
			panic(unsupported("%s needs mode bv", name))
		}
		w := 32
		if strings.HasSuffix(name, "64") || strings.HasSuffix(name, "Len") || strings.HasSuffix(name, "Zeros") {
			w = 64
		}
		x := args[0].S
		// Len(x) = number of bits needed = position of highest set bit + 1 : nested ite over bit positions
		t := bvConst(big.NewInt(0), 64)
		for i := 0; i < w; i++ {
			t = fmt.Sprintf("(ite (= ((_ extract %d %d) %s) #b1) %s %s)", i, i, x, bvConst(big.NewInt(int64(i+1)), 64), t)
		}
		if strings.Contains(name, "LeadingZeros") {
			t = "(bvsub " + bvConst(big.NewInt(int64(w)), 64) + " " + t + ")"
		}
		return sv(rt, g.define("bitslen", "(_ BitVec 64)", t)), true
	}
	if name == "(*sync.Pool).Get" || name == "(*sync.Pool).Put" {
		if g.fc != nil && g.fc.DataflowOnly != "" {
			// dataflow-only units do not reason about pooled buffers: Get returns anything, Put has no effect
			return Val{}, false
		}
		return g.poolOp(name, args, rt, pos), true
	}
	return Val{}, false
}

// poolOp models sync.Pool through a declared pool invariant: Put must establish it (obligation), Get returns
// nil or an element satisfying it. Ownership of the element passes to the pool at Put and to the caller at Get.
func (g *Gen) poolOp(name string, args []Val, rt types.Type, pos token.Pos) Val {
	p := args[0]
	if p.K != kPtr || len(p.P.Idx) < 1 {
		panic(unsupported("sync.Pool that is not a package-level variable or array element"))
	}
	var pm *Macro
	var pname string
	if g.pc != nil {
		for n, m := range g.pc.Pools {
			root := g.fn
			for root.Parent() != nil {
				root = root.Parent()
			}
			if quote("G:"+root.Pkg.Pkg.Path()+"."+n) == p.P.Idx[0] {
				pm, pname = m, n
			}
		}
	}
	if pm == nil {
		panic(unsupported("sync.Pool %s has no `pool` invariant declared", p.P.Idx[0]))
	}
	idx := g.idxConst(0)
	if len(p.P.Idx) > 1 {
		idx = p.P.Idx[1]
	}
	env := g.baseEnv()
	env.heap = g.heap
	et := g.resolveType(env, pm.Params[1].Type)
	inv := func(elem Val) string {
		sub := *env
		sub.vars = map[string]Val{pm.Params[0].Name: sv(intT, idx), pm.Params[1].Name: elem}
		return g.evalBool(pm.Body, &sub)
	}
	g.addAssumption("sync.Pool " + pname + ": Get returns nil or an element previously Put (which satisfied the pool invariant at Put and was not touched since: ownership passes at Put)")
	if strings.HasSuffix(name, "Put") {
		x := args[1]
		elem := g.unbox(x.S, et)
		goal := and(eq("(dyntype "+x.S+")", fmt.Sprint(g.typeTag(et))), inv(elem))
		g.oblig("pool-put", pname, goal, "element put into "+pname+" satisfies the pool invariant", pos, true)
		return Val{}
	}
	r := g.fresh("pooled", "Int")
	elem := g.unbox(r, et)
	g.assume(g.curReach, "(>= "+r+" 0)")
	g.assume(g.curReach, implies(not(eq(r, "0")), and(eq("(dyntype "+r+")", fmt.Sprint(g.typeTag(et))),
		"(> "+elem.S+" 0)", "(<= "+elem.S+" "+g.allocTerm(g.heap)+")", inv(elem))))
	g.owned = append(g.owned, elem.S)
	return sv(rt, r)
}

// ---------- contracts at call sites ----------

type modLoc struct {
	heaps []string // heap names
	sorts []string
	base  string // reference whose entry in each heap may change
	all   bool   // whole heap may change (coarse)
	off   string // s[*] of a slice: only positions off .. off+n-1 of the backing array may change
	n     string
}

// rangeFrame: `modifies s[*]` of a slice leaves the rest of the backing array alone.
func (g *Gen) rangeFrame(ml modLoc, nh, cur string) {
	if ml.off == "" {
		return
	}
	q := g.qvar()
	outside := or(g.idxLt(q, ml.off), g.idxLe(g.idxAdd(ml.off, ml.n), q))
	g.emit(evAssert, fmt.Sprintf("(assert (forall ((%s %s)) (! (=> %s (= (select (select %s %s) %s) (select (select %s %s) %s))) :pattern ((select (select %s %s) %s)) :qid slice_frame)))",
		q, g.idxSort(), outside, nh, ml.base, q, cur, ml.base, q, nh, ml.base, q))
}

func (g *Gen) evalModLoc(text string, env *Env) []modLoc {
	text = strings.TrimSpace(text)
	if text == "*" {
		return []modLoc{{all: true}}
	}
	if strings.HasPrefix(text, "heap ") {
		n := strings.TrimSpace(text[5:])
		srt, ok := g.heapSorts[n]
		if !ok && strings.HasPrefix(n, "[]") {
			// element heap of a basic slice type that this function has not touched yet: declare it
			for _, bt := range types.Typ {
				if bt.Name() == n[2:] && bt.Kind() != types.Invalid {
					names, sorts, _ := g.elemHeaps(bt)
					for i := range names {
						g.heapInit(names[i], sorts[i])
					}
					srt, ok = g.heapSorts[n]
					break
				}
			}
		}
		if !ok {
			panic(contractErr("modifies heap %s: unknown heap (not used before)", n))
		}
		return []modLoc{{heaps: []string{n}, sorts: []string{srt}, all: true}}
	}
	elems := false
	wholeArray := false // s[**]: every position of the slice's backing array (also beyond len: spare capacity)
	if strings.HasSuffix(text, "[**]") {
		elems, wholeArray = true, true
		text = strings.TrimSuffix(text, "[**]")
	} else if strings.HasSuffix(text, "[*]") {
		elems = true
		text = strings.TrimSuffix(text, "[*]")
	}
	allFields := false
	if strings.HasSuffix(text, ".*") {
		allFields = true
		text = strings.TrimSuffix(text, ".*")
	}
	e, err := ParseExpr(text)
	if err != nil {
		panic(contractErr("bad modifies item %q: %v", text, err))
	}
	if allFields {
		v := g.eval(e, env)
		p := g.ptrOf(v)
		var ml modLoc
		ml.base = p.Idx[0]
		for _, l := range g.leaves(p.T) {
			g.noteLeaf(p.Prefix+l.Path, l, len(p.Idx))
			ml.heaps = append(ml.heaps, p.Prefix+l.Path)
			ml.sorts = append(ml.sorts, g.heapSort(l.Sort, len(p.Idx)))
		}
		return []modLoc{ml}
	}
	if elems {
		v := g.eval(e, env)
		if v.K == kSlice {
			et := v.T.Underlying().(*types.Slice).Elem()
			names, sorts, _ := g.elemHeaps(et)
			if wholeArray {
				return []modLoc{{heaps: names, sorts: sorts, base: v.Arr}}
			}
			return []modLoc{{heaps: names, sorts: sorts, base: v.Arr, off: v.Off, n: v.Len}}
		}
		if v.K == kScalar {
			if mt, ok := v.T.Underlying().(*types.Map); ok {
				names := g.mapHeapNames(mt)
				var sorts []string
				ks := g.scalarSort(mt.Key())
				sorts = append(sorts, "(Array Int (Array "+ks+" Bool))", "(Array Int "+g.idxSort()+")")
				for _, l := range g.leaves(mt.Elem()) {
					sorts = append(sorts, "(Array Int (Array "+ks+" "+l.Sort+"))")
				}
				return []modLoc{{heaps: names, sorts: sorts, base: v.S}}
			}
		}
		panic(contractErr("modifies %s[*]: not a slice or map", text))
	}
	// x.f : a field location
	sel, ok := e.(*ESel)
	if !ok {
		panic(contractErr("modifies item %q must be x.f, x.*, s[*] or heap NAME", text))
	}
	bv := g.eval(sel.X, env)
	if bv.K == kScalar && bv.T != nil {
		if _, isPtr := bv.T.Underlying().(*types.Pointer); !isPtr && isRefLike(bv.T) {
			if gt, ok := g.ghostFieldType(env, bv.T, sel.Name); ok {
				var ml modLoc
				ml.base = bv.S
				for _, l := range g.leaves(gt) {
					g.noteLeaf(g.typeName(bv.T)+".ghost:"+sel.Name+l.Path, l, 1)
					ml.heaps = append(ml.heaps, g.typeName(bv.T)+".ghost:"+sel.Name+l.Path)
					ml.sorts = append(ml.sorts, g.heapSort(l.Sort, 1))
				}
				return []modLoc{ml}
			}
		}
	}
	var p Ptr
	if ap, ok := g.evalAddr(sel.X, env); ok {
		p = ap // x.inner.f : a field of a struct-valued field
	} else {
		p = g.ptrOf(bv)
	}
	st, ok := p.T.Underlying().(*types.Struct)
	if !ok {
		panic(contractErr("modifies %s: not a struct", text))
	}
	for i := 0; i < st.NumFields(); i++ {
		if st.Field(i).Name() == sel.Name {
			var ml modLoc
			ml.base = p.Idx[0]
			for _, l := range g.leaves(st.Field(i).Type()) {
				g.noteLeaf(p.Prefix+"."+sel.Name+l.Path, l, len(p.Idx))
				ml.heaps = append(ml.heaps, p.Prefix+"."+sel.Name+l.Path)
				ml.sorts = append(ml.sorts, g.heapSort(l.Sort, len(p.Idx)))
			}
			return []modLoc{ml}
		}
	}
	if gt, ok := g.ghostFieldType(env, p.T, sel.Name); ok {
		var ml modLoc
		ml.base = p.Idx[0]
		for _, l := range g.leaves(gt) {
			g.noteLeaf(p.Prefix+".ghost:"+sel.Name+l.Path, l, len(p.Idx))
			ml.heaps = append(ml.heaps, p.Prefix+".ghost:"+sel.Name+l.Path)
			ml.sorts = append(ml.sorts, g.heapSort(l.Sort, len(p.Idx)))
		}
		return []modLoc{ml}
	}
	panic(contractErr("modifies %s: no such field", text))
}

// evalAddr: the location denoted by `x.f` when f is a struct-valued (embedded by value) field of the object x
// points to; lets contracts reach fields and ghost fields of nested structs (c.closeCode.val).
func (g *Gen) evalAddr(e Expr, env *Env) (Ptr, bool) {
	x, ok := e.(*ESel)
	if !ok || strings.HasPrefix(x.Name, "#") {
		return Ptr{}, false
	}
	if id, isId := x.X.(*EIdent); isId {
		_, isVar := env.vars[id.Name]
		_, isFree := g.freeVars[id.Name]
		isLocal := false
		if !isVar && !isFree && env.resolve != nil {
			_, isLocal = g.resolveIn(env, id.Name)
		}
		if !isVar && !isFree && !isLocal {
			return Ptr{}, false // a package name, a global, ...
		}
	}
	var base Ptr
	if b, ok := g.evalAddr(x.X, env); ok {
		base = b
	} else {
		if _, isId := x.X.(*EIdent); !isId {
			if _, isSel := x.X.(*ESel); !isSel {
				return Ptr{}, false
			}
		}
		v := g.eval(x.X, env)
		switch {
		case v.K == kPtr:
			base = *v.P
		case v.K == kScalar && v.T != nil:
			pt, isPtr := v.T.Underlying().(*types.Pointer)
			if !isPtr {
				return Ptr{}, false
			}
			if _, isStruct := pt.Elem().Underlying().(*types.Struct); !isStruct {
				return Ptr{}, false
			}
			base = g.ptrTo(v.S, pt.Elem())
		default:
			return Ptr{}, false
		}
	}
	st, ok := base.T.Underlying().(*types.Struct)
	if !ok {
		return Ptr{}, false
	}
	for i := 0; i < st.NumFields(); i++ {
		if st.Field(i).Name() == x.Name {
			if _, inner := st.Field(i).Type().Underlying().(*types.Struct); inner {
				return Ptr{Prefix: base.Prefix + "." + x.Name, Idx: base.Idx, T: st.Field(i).Type()}, true
			}
		}
	}
	return Ptr{}, false
}

func (g *Gen) evalModifies() {
	env := g.entryEnv()
	for _, m := range g.fc.Modifies {
		g.modLocs = append(g.modLocs, g.evalModLoc(m, env)...)
	}
}

// frameCheck: a write to location p is permitted by the function's modifies clause, or the object is fresh.
func (g *Gen) frameCheck(p Ptr, pos token.Pos) {
	if g.fc == nil {
		return
	}
	ref := p.Idx[0]
	hn := p.Prefix
	ls := g.leaves(p.T)
	if len(ls) > 0 {
		hn = p.Prefix + ls[0].Path
	}
	allowed := []string{"(> " + ref + " " + g.allocTerm(g.heap0) + ")"}
	for _, o := range g.owned {
		allowed = append(allowed, eq(ref, o))
	}
	for _, ml := range g.modLocs {
		if ml.all && len(ml.heaps) == 0 {
			return
		}
		for _, h := range ml.heaps {
			if h == hn {
				if ml.all {
					return
				}
				if ml.off != "" && len(p.Idx) >= 2 {
					// s[*] of a slice permits only the positions the slice covers (callers assume the rest of the
					// backing array unchanged: rangeFrame)
					i := p.Idx[1]
					allowed = append(allowed, and(eq(ref, ml.base), g.idxLe(ml.off, i), g.idxLt(i, g.idxAdd(ml.off, ml.n))))
				} else {
					allowed = append(allowed, eq(ref, ml.base))
				}
			}
		}
	}
	goal := or(allowed...)
	// cheap syntactic discharge: writes to objects allocated in this activation
	g.oblig("frame", g.srcText(pos), goal, "write is permitted by the modifies clause (or the object is fresh): heap "+hn, pos, true)
}

// frameCheckSpan: a write to positions first..last of backing array arr. The last position is only checked when
// some permission of this function is a slice range (otherwise permissions are per array and one check suffices).
func (g *Gen) frameCheckSpan(prefix string, et types.Type, arr, first, last string, pos token.Pos) {
	g.frameCheck(Ptr{Prefix: prefix, Idx: []string{arr, first}, T: et}, pos)
	for _, ml := range g.modLocs {
		if ml.off != "" {
			g.frameCheck(Ptr{Prefix: prefix, Idx: []string{arr, last}, T: et}, pos)
			return
		}
	}
}

func (g *Gen) frameCheckAll(pos token.Pos, callee string) {
	for _, ml := range g.modLocs {
		if ml.all && len(ml.heaps) == 0 {
			return
		}
	}
	g.oblig("frame", "call:"+callee, "false", "callee may modify anything but the function's modifies clause is restricted", pos, true)
}

// calleeWrites: heap names a call may write (for loop havoc), second result: everything.
func (g *Gen) calleeWrites(in ssa.CallInstruction) (map[string]string, bool) {
	res := map[string]string{"$alloc": "Int"}
	c := in.Common()
	name := g.calleeName(c)
	if b, ok := c.Value.(*ssa.Builtin); ok {
		switch b.Name() {
		case "append":
			et := c.Args[0].Type().Underlying().(*types.Slice).Elem()
			names, sorts, _ := g.elemHeaps(et)
			for i := range names {
				res[names[i]] = sorts[i]
			}
		case "copy":
			et := c.Args[0].Type().Underlying().(*types.Slice).Elem()
			names, sorts, _ := g.elemHeaps(et)
			for i := range names {
				res[names[i]] = sorts[i]
			}
		case "delete":
			mt := c.Args[0].Type().Underlying().(*types.Map)
			for n, s := range g.mapHeapSorts(mt) {
				res[n] = s
			}
		}
		return res, false
	}
	if _, ok := c.Value.(*ssa.Builtin); ok {
		return res, false
	}
	if strings.HasPrefix(name, "math/bits.") {
		return res, false
	}
	if fc, pc, params, pkg := g.w.lookupContract(g, c, name); fc != nil {
		// evaluate modifies with dummy arguments to obtain heap names
		env := &Env{vars: map[string]Val{}, heap: &Heap{}, old: &Heap{}, pkg: pkg, pc: pc}
		for _, p := range params {
			env.vars[p.name] = g.dummyVal(p.typ)
		}
		all := false
		for _, m := range fc.Modifies {
			for _, ml := range g.evalModLocStatic(m, env) {
				if ml.all && len(ml.heaps) == 0 {
					all = true
				}
				for i, h := range ml.heaps {
					res[h] = ml.sorts[i]
				}
			}
		}
		return res, all
	}
	if g.isListed(builtinPure, name) || (g.fc != nil && g.isListed(g.fc.Pure, name)) {
		return res, false
	}
	if g.fc != nil && g.isListed(g.fc.Havoc, name) {
		return res, true
	}
	return res, true // an uncontracted callee may write anything (see callInner)
}

func (g *Gen) evalModLocStatic(text string, env *Env) (res []modLoc) {
	// evaluation without emitting events: run on a scratch copy of the event list
	saved := len(g.events)
	savedFresh := g.nfresh
	defer func() {
		g.events = g.events[:saved]
		_ = savedFresh
	}()
	// declarations made while evaluating must not be remembered as declared
	declSnapshot := map[string]bool{}
	for k := range g.declared {
		declSnapshot[k] = true
	}
	hsSnapshot := map[string]string{}
	for k, v := range g.heapSorts {
		hsSnapshot[k] = v
	}
	defer func() {
		g.declared = declSnapshot
		g.heapSorts = hsSnapshot
	}()
	return g.evalModLoc(text, env)
}

func (g *Gen) mapHeapSorts(mt *types.Map) map[string]string {
	base := "map:" + g.typeName(mt)
	ks := g.scalarSort(mt.Key())
	res := map[string]string{
		base + "#dom": "(Array Int (Array " + ks + " Bool))",
		base + "#len": "(Array Int " + g.idxSort() + ")",
	}
	for _, l := range g.leaves(mt.Elem()) {
		g.noteLeafKey(base+"#val"+l.Path, l, ks)
		res[base+"#val"+l.Path] = "(Array Int (Array " + ks + " " + l.Sort + "))"
	}
	return res
}

func (g *Gen) dummyVal(t types.Type) Val {
	ls := g.leaves(t)
	var terms []string
	for range ls {
		terms = append(terms, "dummy")
	}
	if len(ls) == 0 {
		return Val{K: kStruct, T: t}
	}
	v, _ := g.unflatten(t, terms)
	return v
}

type cparam struct {
	name string
	typ  types.Type
}

func (g *Gen) applyContract(fc *FuncContract, pc *PkgContracts, pkg *types.Package, params []cparam, args []Val, rt types.Type, name string, pos token.Pos) Val {
	if len(params) != len(args) {
		panic(unsupported("call to %s: %d parameters in contract vs %d arguments", name, len(params), len(args)))
	}
	if fc.Mode != "" && fc.Mode != g.mode && !fc.Extern {
		panic(unsupported("call from mode %s to %s which is verified in mode %s", g.mode, name, fc.Mode))
	}
	pre := g.heap.clone()
	env := &Env{vars: map[string]Val{}, heap: pre, old: pre, pkg: pkg, pc: pc}
	if pc != nil && pc != g.pc {
		// the callee's contract speaks its own package's specification vocabulary: bring its axioms along
		g.importAxioms(pc, env)
	}
	for i, p := range params {
		a := args[i]
		if a.K == kPtr {
			// an interior pointer (&x.f): the callee's contract reads and writes through it with the same static path
			env.vars[p.name] = a
			continue
		}
		env.vars[p.name] = g.coerce(a, p.typ)
	}
	site := fmt.Sprintf("%s#%d", name, g.callCount[name])
	for i, c := range fc.Requires {
		goal := g.evalBool(c.Expr, env)
		if g.fc != nil && g.fc.DataflowOnly != "" {
			// dataflow-only unit: the callee's own precondition (state invariants the unit cannot establish from
			// havocked state) is assumed; what the contract states about this call (`callsite ... requires`) is checked
			g.assume(g.curReach, goal)
			g.addAssumption("dataflow-only unit " + g.unit + ": preconditions of contracted callees are assumed at its call sites")
			continue
		}
		g.oblig("call-pre", site+"."+clauseName(c, i), goal, "precondition of "+name+": "+c.Src, pos, true)
	}
	if fc.Extern || fc.Trusted != "" {
		g.addAssumption("assumed contract of " + name + " (" + fc.File[strings.LastIndex(fc.File, "/")+1:] + ")")
	}
	// havoc what the callee may modify
	g.heap = g.heap.clone()
	old := g.allocTerm(g.heap)
	na := g.fresh("alloc", "Int")
	g.assume("true", "(>= "+na+" "+old+")")
	g.heap.m["$alloc"] = na
	for _, m := range fc.Modifies {
		for _, ml := range g.evalModLoc(m, env) {
			if ml.all && len(ml.heaps) == 0 {
				g.frameCheckAll(pos, name)
				g.havocEverything(name)
				continue
			}
			for i, hn := range ml.heaps {
				// the callee's frame must be inside ours
				g.frameCheckHeap(hn, ml, pos, name)
				cur := g.heapGet(g.heap, hn, ml.sorts[i])
				nh := g.freshHeap("H:", hn, ml.sorts[i])
				if !ml.all {
					g.emit(evAssert, "(assert (= "+nh+" (store "+cur+" "+ml.base+" (select "+nh+" "+ml.base+"))))")
					g.rangeFrame(ml, nh, cur)
				}
				g.heap.m[hn] = nh
			}
		}
	}
	var res Val
	var results []Val
	if rt != nil {
		res = g.freshVal("ret:"+name, rt)
		g.typeFacts(g.curReach, res)
		if tup, ok := rt.(*types.Tuple); ok {
			if tup.Len() > 0 {
				results = res.Fs
			}
		} else {
			results = []Val{res}
		}
	}
	// newly allocated result objects: the reference is fresh and non-nil, and every field cell of the object
	// (ghost fields included) is a new unconstrained value
	for _, a := range fc.Allocates {
		var rv Val
		switch {
		case a == "result" && len(results) == 1:
			rv = results[0]
		case strings.HasPrefix(a, "result."):
			var n int
			fmt.Sscanf(a, "result.%d", &n)
			if n < len(results) {
				rv = results[n]
			}
		}
		pt, ok := rv.T.Underlying().(*types.Pointer)
		if rv.K != kScalar || !ok {
			panic(contractErr("allocates %s: not a pointer result of %s", a, name))
		}
		g.assume(g.curReach, "(> "+rv.S+" "+pre_alloc(g, pre)+")")
		g.heap.m["$alloc"] = g.define("alloc", "Int", ite("(> "+rv.S+" "+g.allocTerm(g.heap)+")", rv.S, g.allocTerm(g.heap)))
		p := g.ptrTo(rv.S, pt.Elem())
		cell := func(pp Ptr) {
			for _, l := range g.leaves(pp.T) {
				hn := pp.Prefix + l.Path
				hs := g.heapSort(l.Sort, len(pp.Idx))
				g.noteLeaf(hn, l, len(pp.Idx))
				cur := g.heapGet(g.heap, hn, hs)
				fv := g.fresh("newcell", l.Sort)
				g.heapSet(g.heap, hn, hs, storeN(cur, pp.Idx, fv))
			}
		}
		cell(p)
		if callerPc := pc; callerPc != nil {
			tn := g.typeName(pt.Elem())
			for _, gf := range g.allGhostFields() {
				if gf.Struct == tn || lastPkgElem(gf.Struct) == tn {
					gt := g.resolveType(&Env{pkg: pkg, pc: pc}, gf.Type)
					cell(Ptr{Prefix: p.Prefix + ".ghost:" + gf.Name, Idx: p.Idx, T: gt})
				}
			}
		}
	}
	post := &Env{vars: env.vars, heap: g.heap, old: pre, pkg: pkg, pc: pc, results: results}
	for _, c := range fc.Ensures {
		if c.Local || c.Ret != 0 {
			// proved for the callee, not exported to callers: @local clauses (keeps the caller's context small) and
			// clauses tied to one return statement (they may mention the callee's ghost names)
			continue
		}
		g.assume(g.curReach, g.evalBool(c.Expr, post))
	}
	return res
}

// callSiteRequires: obligations `callsite F#N requires ...` of the caller, evaluated in the state just before the call
// with the actual arguments bound to arg0, arg1, ...
func (g *Gen) callSiteRequires(cs *CallSiteSpec, site string, c *ssa.CallCommon, pos token.Pos) {
	pre := g.heap.clone()
	env := g.localEnv()
	env.heap = pre
	env.pre = pre
	var as []ssa.Value
	if c.IsInvoke() {
		as = append(as, c.Value)
	}
	as = append(as, c.Args...)
	for i, a := range as {
		env.vars[fmt.Sprintf("arg%d", i)] = g.val(a)
	}
	for i, cl := range cs.Requires {
		g.oblig("call-pre", site+"."+clauseName(cl, i), g.evalBool(cl.Expr, env), cl.Src, pos, true)
	}
}

// applyCallSite: the effect of this one call is described (assumed) in the caller's own contract.
func (g *Gen) applyCallSite(cs *CallSiteSpec, site string, c *ssa.CallCommon, rt types.Type, pos token.Pos) Val {
	why := cs.Why
	if why == "" {
		why = "assumed"
	}
	g.addAssumption("effect of call " + site + " assumed as written in the contract (" + why + ")")
	if cs.Closure != "" {
		// the function value passed must be the named closure (whose own contract is verified separately)
		found := false
		for _, a := range c.Args {
			if mc, ok := a.(*ssa.MakeClosure); ok && strings.HasSuffix(shortFuncName(mc.Fn.(*ssa.Function)), cs.Closure) {
				found = true
			}
		}
		if !found {
			panic(contractErr("callsite %s: closure %s is not the function passed", site, cs.Closure))
		}
	}
	pre := g.heap.clone()
	env := g.localEnv()
	env.heap = pre
	env.pre = pre
	// the call's actual arguments are available as arg0, arg1, ... (receiver of an interface call first)
	{
		var as []ssa.Value
		if c.IsInvoke() {
			as = append(as, c.Value)
		}
		as = append(as, c.Args...)
		for i, a := range as {
			env.vars[fmt.Sprintf("arg%d", i)] = g.val(a)
		}
	}
	for i, cl := range cs.Requires {
		g.oblig("call-pre", site+"."+clauseName(cl, i), g.evalBool(cl.Expr, env), cl.Src, pos, true)
	}
	g.heap = g.heap.clone()
	old := g.allocTerm(g.heap)
	na := g.fresh("alloc", "Int")
	g.assume("true", "(>= "+na+" "+old+")")
	g.heap.m["$alloc"] = na
	for _, m := range cs.Modifies {
		for _, ml := range g.evalModLoc(m, env) {
			if ml.all && len(ml.heaps) == 0 {
				g.frameCheckAll(pos, site)
				g.havocEverything(site)
				continue
			}
			for i, hn := range ml.heaps {
				g.frameCheckHeap(hn, ml, pos, site)
				cur := g.heapGet(g.heap, hn, ml.sorts[i])
				nh := g.freshHeap("H:", hn, ml.sorts[i])
				if !ml.all {
					g.emit(evAssert, "(assert (= "+nh+" (store "+cur+" "+ml.base+" (select "+nh+" "+ml.base+"))))")
					g.rangeFrame(ml, nh, cur)
				}
				g.heap.m[hn] = nh
			}
		}
	}
	var res Val
	var results []Val
	if rt != nil {
		res = g.freshVal("ret:"+site, rt)
		g.typeFacts(g.curReach, res)
		if tup, ok := rt.(*types.Tuple); ok {
			results = res.Fs
			_ = tup
		} else {
			results = []Val{res}
		}
	}
	post := g.localEnv()
	post.pre = pre
	post.results = results
	for _, cl := range cs.Ensures {
		g.assume(g.curReach, g.evalBool(cl.Expr, post))
	}
	return res
}

func pre_alloc(g *Gen, pre *Heap) string { return g.allocTerm(pre) }

func (g *Gen) frameCheckHeap(hn string, ml modLoc, pos token.Pos, callee string) {
	if g.fc == nil {
		return
	}
	allowed := []string{}
	if !ml.all {
		// fresh objects may be written freely; the nil reference owns no locations at all
		allowed = append(allowed, "(> "+ml.base+" "+g.allocTerm(g.heap0)+")", eq(ml.base, "0"))
	}
	for _, mine := range g.modLocs {
		if mine.all && len(mine.heaps) == 0 {
			return
		}
		for _, h := range mine.heaps {
			if h == hn {
				if mine.all {
					return
				}
				if !ml.all {
					if mine.off != "" {
						// my own permission is a slice range: the callee's must be a range inside it (or empty)
						if ml.off != "" {
							allowed = append(allowed, and(eq(ml.base, mine.base), or(eq(ml.n, g.idxConst(0)),
								and(g.idxLe(mine.off, ml.off), g.idxLe(g.idxAdd(ml.off, ml.n), g.idxAdd(mine.off, mine.n))))))
						}
					} else {
						allowed = append(allowed, eq(ml.base, mine.base))
					}
				}
			}
		}
	}
	g.oblig("frame", "call:"+callee+":"+hn, or(allowed...), "callee's write set is inside the modifies clause: heap "+hn, pos, true)
}
