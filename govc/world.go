package main

import (
	"bytes"
	"fmt"
	"go/ast"
	"go/constant"
	"go/token"
	"go/types"
	"os"
	"regexp"
	"strings"

	"golang.org/x/tools/go/packages"
	"golang.org/x/tools/go/ssa"
	"golang.org/x/tools/go/ssa/ssautil"
)

const modulePath = "github.com/centrifugal/centrifuge"

type World struct {
	globalErrOK map[*ssa.Global]bool
	globalMapCache map[*ssa.Global][]mapLitEntry
	globalMapOK    map[*ssa.Global]bool
	repo      string
	fset      *token.FileSet
	pkgs      []*packages.Package
	prog      *ssa.Program
	spkgs     map[string]*ssa.Package // by import path
	contracts map[string]*PkgContracts
	files     []*ast.File
	src       map[string][]byte
	feWeight  int // :weight given to forall-exists quantifiers
	globalCache map[*ssa.Global]*string
}

func LoadWorld(repo string, patterns []string, overlay map[string][]byte) (*World, error) {
	w := &World{repo: repo, spkgs: map[string]*ssa.Package{}, src: map[string][]byte{}, feWeight: 7}
	if v := os.Getenv("GOVC_FE_WEIGHT"); v != "" {
		fmt.Sscanf(v, "%d", &w.feWeight)
	}
	cfg := &packages.Config{
		Mode:       packages.LoadAllSyntax,
		Dir:        repo,
		BuildFlags: []string{"-tags=verif"},
		Overlay:    overlay,
		Env:        goEnv(),
	}
	pkgs, err := packages.Load(cfg, patterns...)
	if err != nil {
		return nil, err
	}
	var errs []string
	packages.Visit(pkgs, nil, func(p *packages.Package) {
		for _, e := range p.Errors {
			if strings.HasPrefix(p.PkgPath, modulePath) {
				errs = append(errs, e.Error())
			}
		}
	})
	if len(errs) > 0 {
		return nil, fmt.Errorf("package errors: %s", strings.Join(errs, "; "))
	}
	w.pkgs = pkgs
	prog, _ := ssautil.AllPackages(pkgs, ssa.GlobalDebug|ssa.InstantiateGenerics)
	prog.Build()
	w.prog = prog
	for _, p := range prog.AllPackages() {
		w.spkgs[p.Pkg.Path()] = p
	}
	packages.Visit(pkgs, nil, func(p *packages.Package) {
		if w.fset == nil && p.Fset != nil {
			w.fset = p.Fset
		}
		if strings.HasPrefix(p.PkgPath, modulePath) {
			w.files = append(w.files, p.Syntax...)
		}
	})
	w.contracts, err = LoadContracts(repo)
	if err != nil {
		return nil, err
	}
	return w, nil
}

const toolchainBin = "/root/go/pkg/mod/golang.org/toolchain@v0.0.1-go1.25.0.linux-amd64/bin"

// goEnv: the repository needs go 1.25 (present only as a cached toolchain module); run it offline.
func goEnv() []string {
	var env []string
	for _, e := range os.Environ() {
		if strings.HasPrefix(e, "PATH=") || strings.HasPrefix(e, "GOTOOLCHAIN=") || strings.HasPrefix(e, "GOFLAGS=") ||
			strings.HasPrefix(e, "GOPROXY=") || strings.HasPrefix(e, "GOSUMDB=") {
			continue
		}
		env = append(env, e)
	}
	path := os.Getenv("PATH")
	if _, err := os.Stat(toolchainBin); err == nil {
		path = toolchainBin + ":" + path
	}
	return append(env, "PATH="+path, "GOTOOLCHAIN=local", "GOFLAGS=-mod=mod", "GOPROXY=off", "GOSUMDB=off")
}

func (w *World) fileOf(pos token.Pos) *ast.File {
	for _, f := range w.files {
		if f.FileStart <= pos && pos < f.FileEnd {
			return f
		}
	}
	return nil
}

func (w *World) nodeText(n ast.Node) string {
	p0 := w.fset.Position(n.Pos())
	p1 := w.fset.Position(n.End())
	data, ok := w.src[p0.Filename]
	if !ok {
		data, _ = os.ReadFile(p0.Filename)
		w.src[p0.Filename] = data
	}
	if p0.Offset < 0 || p1.Offset > len(data) || p0.Offset > p1.Offset {
		return ""
	}
	return string(bytes.TrimSpace(data[p0.Offset:p1.Offset]))
}

// findPackage resolves a package name as seen from `from` (its imports), falling back to any loaded package.
func (w *World) findPackage(from *types.Package, name string) *types.Package {
	if from != nil {
		if from.Name() == name {
			return from
		}
		for _, imp := range from.Imports() {
			if imp.Name() == name {
				return imp
			}
		}
	}
	for path, sp := range w.spkgs {
		if sp.Pkg.Name() == name && (strings.HasPrefix(path, modulePath) || !strings.Contains(path, "/internal/")) {
			return sp.Pkg
		}
	}
	return nil
}

func (w *World) pkgDir(path string) (string, bool) {
	if path == modulePath {
		return ".", true
	}
	if strings.HasPrefix(path, modulePath+"/") {
		return strings.TrimPrefix(path, modulePath+"/"), true
	}
	return "", false
}

// findFunc locates the SSA function for a contract name in a package directory.
func (w *World) findFunc(dir, name string) *ssa.Function {
	path := modulePath
	if dir != "." {
		path += "/" + dir
	}
	sp := w.spkgs[path]
	if sp == nil {
		return nil
	}
	base := name
	var anon []string
	if i := strings.Index(name, "$"); i >= 0 {
		base = name[:i]
		anon = strings.Split(name[i+1:], "$")
	}
	var fn *ssa.Function
	if strings.HasPrefix(base, "(") {
		// (*T).M or (T).M
		j := strings.Index(base, ").")
		recv := strings.TrimPrefix(base[1:j], "*")
		ptr := strings.HasPrefix(base[1:j], "*")
		m := base[j+2:]
		tn, ok := sp.Pkg.Scope().Lookup(recv).(*types.TypeName)
		if !ok {
			return nil
		}
		var t types.Type = tn.Type()
		if ptr {
			t = types.NewPointer(t)
		}
		sel := w.prog.MethodSets.MethodSet(t).Lookup(sp.Pkg, m)
		if sel == nil {
			return nil
		}
		fn = w.prog.MethodValue(sel)
	} else {
		fn = sp.Func(base)
	}
	for _, a := range anon {
		if fn == nil {
			return nil
		}
		var n int
		fmt.Sscanf(a, "%d", &n)
		if n < 1 || n > len(fn.AnonFuncs) {
			return nil
		}
		fn = fn.AnonFuncs[n-1]
	}
	return fn
}

// lastPkgElem reduces every import path in a function name to its last element:
// "(github.com/quagmt/udecimal.Decimal).Cmp" -> "(udecimal.Decimal).Cmp"
func lastPkgElem(name string) string {
	return pkgPathRe.ReplaceAllString(name, "")
}

var pkgPathRe = regexp.MustCompile(`[A-Za-z0-9_.\-]+/`)

func (w *World) contractOfFunc(f *ssa.Function) (*FuncContract, *PkgContracts) {
	root := f
	for root.Parent() != nil {
		root = root.Parent()
	}
	if root.Pkg == nil {
		return nil, nil
	}
	dir, ok := w.pkgDir(root.Pkg.Pkg.Path())
	if !ok {
		return nil, nil
	}
	pc := w.contracts[dir]
	if pc == nil {
		return nil, nil
	}
	name := f.RelString(root.Pkg.Pkg)
	if fc, ok := pc.Funcs[name]; ok {
		return fc, pc
	}
	return nil, nil
}

func (w *World) lookupContract(g *Gen, c *ssa.CallCommon, name string) (*FuncContract, *PkgContracts, []cparam, *types.Package) {
	var f *ssa.Function
	switch v := c.Value.(type) {
	case *ssa.Function:
		f = v
	case *ssa.MakeClosure:
		f = v.Fn.(*ssa.Function)
	}
	if f != nil && !c.IsInvoke() {
		// a contract of the callee's own package is used unless it was verified in the other integer mode; in
		// that case the caller's file must restate it as an `extern` (listed as an assumption there, proved there)
		if fc, pc := w.contractOfFunc(f); fc != nil && (fc.Mode == "" && g.mode == "int" || fc.Mode == g.mode) {
			var ps []cparam
			for _, p := range f.Params {
				ps = append(ps, cparam{p.Name(), p.Type()})
			}
			root := f
			for root.Parent() != nil {
				root = root.Parent()
			}
			return fc, pc, ps, root.Pkg.Pkg
		}
	}
	// extern contracts: current package's file first, then any
	find := func(pc *PkgContracts) *FuncContract {
		if pc == nil {
			return nil
		}
		if fc, ok := pc.Externs[name]; ok {
			return fc
		}
		if i := strings.Index(name, "["); i > 0 {
			if fc, ok := pc.Externs[name[:i]]; ok {
				return fc
			}
		}
		// package paths may be abbreviated in the contract: "(udecimal.Decimal).Cmp" for the full import path
		base := name
		if i := strings.Index(base, "["); i > 0 {
			base = base[:i]
		}
		for k, fc := range pc.Externs {
			if lastPkgElem(k) == lastPkgElem(base) || siteMatches(base, k) {
				return fc
			}
		}
		return nil
	}
	fc := find(g.pc)
	pc := g.pc
	if fc == nil {
		return nil, nil, nil, nil
	}
	var pkg *types.Package
	if g.fn.Pkg != nil {
		pkg = g.fn.Pkg.Pkg
	} else if g.fn.Parent() != nil {
		pkg = g.fn.Parent().Pkg.Pkg
	}
	env := &Env{pkg: pkg, pc: pc}
	var ps []cparam
	for _, p := range fc.ExtParams {
		ps = append(ps, cparam{p.Name, g.resolveType(env, p.Type)})
	}
	return fc, pc, ps, pkg
}

// globalInit: a package-level variable of string or []byte type whose only assignment in the whole program is
// its constant initialiser (in the package's init function) and whose address is never taken otherwise is
// effectively a constant. Returns its literal value.
// globalMapInit: for a package-level map variable that is assigned exactly once (in init, from a map literal with
// constant keys and values) and whose loaded value is only ever used for lookups and len, the literal's entries.
type mapLitEntry struct{ K, V *ssa.Const }

func (w *World) globalMapInit(gl *ssa.Global) ([]mapLitEntry, bool) {
	if w.globalMapCache == nil {
		w.globalMapCache = map[*ssa.Global][]mapLitEntry{}
		w.globalMapOK = map[*ssa.Global]bool{}
	}
	if ok, done := w.globalMapOK[gl]; done {
		return w.globalMapCache[gl], ok
	}
	w.globalMapOK[gl] = false
	if _, isMap := gl.Type().Underlying().(*types.Pointer).Elem().Underlying().(*types.Map); !isMap {
		return nil, false
	}
	var mk *ssa.MakeMap
	stores := 0
	for fn := range ssautil.AllFunctions(w.prog) {
		for _, b := range fn.Blocks {
			for _, in := range b.Instrs {
				switch x := in.(type) {
				case *ssa.Store:
					if x.Addr == gl {
						stores++
						m, ok := x.Val.(*ssa.MakeMap)
						if !ok || fn.Name() != "init" {
							return nil, false
						}
						mk = m
					} else if x.Val == ssa.Value(gl) {
						return nil, false
					}
				case *ssa.UnOp:
					if x.X == gl {
						// the loaded map may only be looked up or measured
						for _, ref := range *x.Referrers() {
							switch r := ref.(type) {
							case *ssa.Lookup:
								if r.X != ssa.Value(x) {
									return nil, false
								}
							case *ssa.DebugRef:
							case *ssa.Call:
								if bi, ok := r.Call.Value.(*ssa.Builtin); !ok || bi.Name() != "len" {
									return nil, false
								}
							default:
								return nil, false
							}
						}
					}
				default:
					for _, op := range in.Operands(nil) {
						if op != nil && *op == ssa.Value(gl) {
							return nil, false
						}
					}
				}
			}
		}
	}
	if mk == nil || stores != 1 {
		return nil, false
	}
	var es []mapLitEntry
	for _, ref := range *mk.Referrers() {
		switch r := ref.(type) {
		case *ssa.MapUpdate:
			k, ok1 := r.Key.(*ssa.Const)
			v, ok2 := r.Value.(*ssa.Const)
			if !ok1 || !ok2 || r.Map != ssa.Value(mk) {
				return nil, false
			}
			es = append(es, mapLitEntry{k, v})
		case *ssa.Store:
			if r.Addr != ssa.Value(gl) {
				return nil, false
			}
		case *ssa.DebugRef:
		default:
			return nil, false
		}
	}
	w.globalMapCache[gl] = es
	w.globalMapOK[gl] = true
	return es, true
}

// globalNonNilErr: a package-level error variable assigned exactly once, in init, from errors.New / fmt.Errorf or
// the address of a composite literal, and never reassigned: its value is a fixed non-nil error.
func (w *World) globalNonNilErr(gl *ssa.Global) bool {
	if w.globalErrOK == nil {
		w.globalErrOK = map[*ssa.Global]bool{}
	}
	if ok, done := w.globalErrOK[gl]; done {
		return ok
	}
	w.globalErrOK[gl] = false
	stores := 0
	good := false
	for fn := range ssautil.AllFunctions(w.prog) {
		for _, b := range fn.Blocks {
			for _, in := range b.Instrs {
				switch x := in.(type) {
				case *ssa.Store:
					if x.Addr == gl {
						stores++
						if fn.Name() != "init" {
							return false
						}
						switch v := x.Val.(type) {
						case *ssa.Call:
							if f, ok := v.Call.Value.(*ssa.Function); ok && (f.String() == "errors.New" || f.String() == "fmt.Errorf") {
								good = true
							}
						case *ssa.MakeInterface:
							if _, ok := v.X.(*ssa.Alloc); ok {
								good = true
							}
						}
					}
				case *ssa.UnOp:
				default:
					for _, op := range in.Operands(nil) {
						if op != nil && *op == ssa.Value(gl) {
							return false
						}
					}
				}
			}
		}
	}
	w.globalErrOK[gl] = good && stores == 1
	return w.globalErrOK[gl]
}

func (w *World) globalInit(gl *ssa.Global) (string, bool) {
	if w.globalCache == nil {
		w.globalCache = map[*ssa.Global]*string{}
	}
	if p, ok := w.globalCache[gl]; ok {
		if p == nil {
			return "", false
		}
		return *p, true
	}
	w.globalCache[gl] = nil
	var lit *string
	stores := 0
	for fn := range ssautil.AllFunctions(w.prog) {
		for _, b := range fn.Blocks {
			for _, in := range b.Instrs {
				switch x := in.(type) {
				case *ssa.Store:
					if x.Addr == gl {
						stores++
						if fn.Name() != "init" {
							return "", false
						}
						switch v := x.Val.(type) {
						case *ssa.Const:
							if v.Value != nil && v.Value.Kind() == constant.String {
								s := constant.StringVal(v.Value)
								lit = &s
							}
						case *ssa.Convert:
							if c, ok := v.X.(*ssa.Const); ok && c.Value != nil && c.Value.Kind() == constant.String {
								s := constant.StringVal(c.Value)
								lit = &s
							}
						}
					}
				case *ssa.UnOp:
					// plain loads are fine
				default:
					// any other use of the global's address (passed to a call, stored, indexed) makes it mutable
					for _, op := range in.Operands(nil) {
						if op != nil && *op == ssa.Value(gl) {
							return "", false
						}
					}
				}
			}
		}
	}
	if lit == nil || stores != 1 {
		return "", false
	}
	// for []byte globals: no store through an element address of a loaded copy
	if _, isSlice := gl.Type().Underlying().(*types.Pointer).Elem().Underlying().(*types.Slice); isSlice {
		for fn := range ssautil.AllFunctions(w.prog) {
			for _, b := range fn.Blocks {
				for _, in := range b.Instrs {
					if ld, ok := in.(*ssa.UnOp); ok && ld.X == gl {
						for _, ref := range *ld.Referrers() {
							if ia, ok := ref.(*ssa.IndexAddr); ok {
								for _, r2 := range *ia.Referrers() {
									if st, ok := r2.(*ssa.Store); ok && st.Addr == ia {
										return "", false
									}
								}
							}
						}
					}
				}
			}
		}
	}
	w.globalCache[gl] = lit
	return *lit, true
}
