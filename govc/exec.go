package main

import (
	"fmt"
	"go/constant"
	"go/token"
	"go/types"
	"math/big"
	"os"
	"sort"
	"strings"

	"golang.org/x/tools/go/ssa"
)

func NewGen(w *World, fn *ssa.Function, fc *FuncContract, pc *PkgContracts) *Gen {
	g := &Gen{w: w, fn: fn, fc: fc, pc: pc}
	g.mode = "int"
	if fc != nil && fc.Mode != "" {
		g.mode = fc.Mode
	}
	g.heapSorts = map[string]string{}
	g.declared = map[string]bool{}
	g.strConsts = map[string]string{}
	g.typeTags = map[string]int{}
	g.vals = map[ssa.Value]Val{}
	g.closures = map[ssa.Value]*closureInfo{}
	g.reach = map[*ssa.BasicBlock]string{}
	g.endHeap = map[*ssa.BasicBlock]*Heap{}
	g.obNames = map[string]int{}
	g.callCount = map[string]int{}
	g.usedUFuns = map[string]bool{}
	g.heap0 = &Heap{}
	g.leafT = map[string]types.Type{}
	g.leafDepth = map[string]int{}
	g.startHeap = map[*ssa.BasicBlock]*Heap{}
	g.rangeOver = map[*ssa.Range]ssa.Value{}
	g.nilProved = map[string][]*ssa.BasicBlock{}
	g.heap = &Heap{m: map[string]string{}}
	g.curReach = "true"
	return g
}

func (g *Gen) baseEnv() *Env {
	var pkg *types.Package
	if g.fn != nil && g.fn.Pkg != nil {
		pkg = g.fn.Pkg.Pkg
	} else if g.fn != nil && g.fn.Parent() != nil {
		pkg = g.fn.Parent().Pkg.Pkg
	}
	return &Env{vars: map[string]Val{}, heap: g.heap, old: g.heap0, pkg: pkg, pc: g.pc}
}

func (g *Gen) addAssumption(s string) {
	for _, a := range g.assumptions {
		if a == s {
			return
		}
	}
	g.assumptions = append(g.assumptions, s)
}

// emitAxioms declares all axioms of the package contract set (those not being proved as lemmas are assumptions).
func (g *Gen) emitAxioms(skipLemma string) {
	if g.pc == nil {
		return
	}
	env := g.baseEnv()
	for _, a := range g.pc.Axioms {
		if a.Lemma && a.Name == skipLemma {
			break // a lemma may use only what precedes it
		}
		f, ok := g.tryAxiomFormula(a, env)
		if !ok {
			continue // not expressible in this unit's integer mode (e.g. bit operations in `mode int`): left out, which is sound
		}
		g.emit(evAssert, "(assert "+f+")")
		if !a.Lemma {
			g.addAssumption("axiom " + a.Name + ": " + a.Src)
		}
	}
}

// tryAxiomFormula: axiomFormula, but an axiom that the current integer mode cannot express is reported as !ok.
func (g *Gen) tryAxiomFormula(a *Axiom, env *Env) (f string, ok bool) {
	n := len(g.events)
	defer func() {
		if r := recover(); r != nil {
			if _, isUnsup := r.(unsupportedErr); isUnsup {
				g.events = g.events[:n]
				f, ok = "", false
				return
			}
			panic(r)
		}
	}()
	return g.axiomFormula(a, env), true
}

// RunLemma generates the single obligation of a contract-file lemma: the axioms and lemmas that precede it are
// available, the lemma's formula (heaps universally quantified) is the goal.
func (g *Gen) RunLemma(name string) (err error) {
	defer func() {
		if r := recover(); r != nil {
			switch e := r.(type) {
			case unsupportedErr:
				err = fmt.Errorf("%s: outside the verified subset: %s", g.unit, string(e))
			case contractError:
				err = fmt.Errorf("%s: contract error: %s", g.unit, string(e))
			default:
				panic(r)
			}
		}
	}()
	curPkgName = ""
	if bp := g.baseEnv().pkg; bp != nil {
		curPkgName = bp.Name()
	}
	g.emitAxioms(name)
	for _, a := range g.pc.Axioms {
		if a.Lemma && a.Name == name {
			f := g.axiomFormula(a, g.baseEnv())
			g.oblig("lemma", name, f, a.Src, token.NoPos, true)
			return nil
		}
	}
	return fmt.Errorf("lemma %s not found", name)
}

// Run generates all events for the function under contract.
func (g *Gen) Run() (err error) {
	defer func() {
		if r := recover(); r != nil {
			if os.Getenv("GOVC_PANIC") != "" {
				panic(r)
			}
			switch e := r.(type) {
			case unsupportedErr:
				err = fmt.Errorf("%s: outside the verified subset: %s", g.unit, string(e))
			case contractError:
				err = fmt.Errorf("%s: contract error: %s", g.unit, string(e))
			default:
				panic(r)
			}
		}
	}()
	fn := g.fn
	curPkgName = ""
	if bp := g.baseEnv().pkg; bp != nil {
		curPkgName = bp.Name()
	}
	g.emitAxioms("")
	// parameters
	g.params = map[string]Val{}
	for _, p := range fn.Params {
		v := g.freshVal("p:"+p.Name(), p.Type())
		g.vals[p] = v
		g.params[p.Name()] = v
		g.typeFacts("true", v)
		g.watchVal("param "+p.Name(), v)
	}
	for _, fv := range fn.FreeVars {
		v := g.freshVal("fv:"+fv.Name(), fv.Type())
		g.vals[fv] = v
		// a free variable is the ADDRESS of the captured variable; contracts name the variable itself (eval derefs)
		if g.freeVars == nil {
			g.freeVars = map[string]Val{}
		}
		g.freeVars[fv.Name()] = v
		g.typeFacts("true", v)
		// the address of a captured variable is a real, distinct cell
		g.assume("true", "(> "+v.S+" 0)")
		for _, o := range fn.FreeVars {
			if o == fv {
				break
			}
			if types.Identical(o.Type(), fv.Type()) {
				g.assume("true", "(not (= "+v.S+" "+g.vals[o].S+"))")
			}
		}
	}
	// entry-state fields of struct-pointer parameters are part of every counter-model report
	for _, p := range fn.Params {
		if pt, ok := p.Type().Underlying().(*types.Pointer); ok {
			if _, ok := pt.Elem().Underlying().(*types.Struct); ok {
				fv := g.load(g.heap0, g.ptrTo(g.vals[p].S, pt.Elem()))
				g.watchVal("entry "+p.Name(), fv)
			}
		}
	}
	g.collectDebugRefs()
	g.findLoops()
	// preconditions
	env := g.entryEnv()
	var pres []string
	for _, c := range g.fc.Requires {
		pres = append(pres, g.evalBool(c.Expr, env))
	}
	pre := and(pres...)
	g.assume("true", pre)
	// vacuity guard: precondition (with axioms and type facts) must be satisfiable
	ob := &Oblig{Unit: g.unit, Name: "pre-sat", Kind: "pre-sat", Guard: "true", Goal: "false", ExpectSat: true, Contractual: true, Desc: "precondition is satisfiable (vacuity guard)", Props: g.fc.Props}
	ob.evIndex = len(g.events)
	g.events = append(g.events, Event{K: evOblig, Ob: ob})
	// modifies
	g.evalModifies()
	// blocks in reverse postorder ignoring back edges
	g.prebindGhosts()
	order := g.rpo()
	for _, b := range order {
		g.execBlock(b)
	}
	return nil
}

// allocPrivate: the variable behind this Alloc is marked escaping by go/ssa only because closures of the function
// capture it, and no such closure (transitively) assigns it or lets its address go anywhere; all other uses are
// loads, stores INTO it and field/element address computations used the same way.
func allocPrivate(a *ssa.Alloc) bool {
	return addrUsesPrivate(a, false, 0)
}

func addrUsesPrivate(v ssa.Value, readOnly bool, depth int) bool {
	if depth > 6 || v.Referrers() == nil {
		return false
	}
	for _, r := range *v.Referrers() {
		switch x := r.(type) {
		case *ssa.DebugRef:
		case *ssa.UnOp:
			if x.Op != token.MUL {
				return false
			}
		case *ssa.Store:
			if x.Val == v || readOnly {
				return false
			}
		case *ssa.FieldAddr:
			if !addrUsesPrivate(x, readOnly, depth+1) {
				return false
			}
		case *ssa.IndexAddr:
			if x.X != v || !addrUsesPrivate(x, readOnly, depth+1) {
				return false
			}
		case *ssa.MakeClosure:
			fn, ok := x.Fn.(*ssa.Function)
			if !ok {
				return false
			}
			for i, b := range x.Bindings {
				if b == v {
					if i >= len(fn.FreeVars) || !addrUsesPrivate(fn.FreeVars[i], true, depth+1) {
						return false
					}
				}
			}
		default:
			return false
		}
	}
	return true
}

// prebindGhosts gives every `ghost x after F#N = ...` of the contract an unconstrained value of the right type
// before execution starts. A clause evaluated on a path (e.g. a loop's back edge after `continue`) that is executed
// before the block that contains F#N would otherwise find the name unbound; on such paths the ghost is arbitrary,
// which is what a non-dominating definition means (clauses guard their use). The real binding replaces it.
func (g *Gen) prebindGhosts() {
	if g.fc == nil || len(g.fc.Ghosts) == 0 || len(g.fn.Blocks) == 0 {
		return
	}
	entry := g.fn.Blocks[0]
	for _, gh := range g.fc.Ghosts {
		var t types.Type
		if er, ok := gh.Expr.(*EResult); ok {
			for _, b := range g.fn.Blocks {
				for _, ins := range b.Instrs {
					cc, ok := ins.(ssa.CallInstruction)
					if !ok {
						continue
					}
					ord, ok := g.siteOrdinal(ins)
					if !ok {
						continue
					}
					n := g.calleeName(cc.Common())
					if _, isGo := ins.(*ssa.Go); isGo {
						continue
					}
					if !siteMatches(fmt.Sprintf("%s#%d", n, ord), gh.Site) {
						continue
					}
					if v, ok := ins.(ssa.Value); ok {
						t = v.Type()
						if tup, ok := t.(*types.Tuple); ok {
							if er.N >= 0 && er.N < tup.Len() {
								t = tup.At(er.N).Type()
							} else if tup.Len() == 1 {
								t = tup.At(0).Type()
							} else {
								t = nil
							}
						}
					}
				}
			}
		} else if id, ok := gh.Expr.(*EIdent); ok {
			if refs := g.namedLocal[id.Name]; len(refs) > 0 {
				t = refs[0].X.Type()
			}
		} else if _, ok := gh.Expr.(*EBool); ok {
			// `ghost done after F#N = true`: "F#N has been executed on this path" (arbitrary where it has not)
			t = types.Typ[types.Bool]
		}
		if t == nil {
			continue
		}
		if _, isRes := gh.Expr.(*EResult); !isRes && !isComposite(t) {
			if g.cellGhosts == nil {
				g.cellGhosts = map[string]types.Type{}
			}
			if _, seen := g.cellGhosts[gh.Name]; !seen {
				g.cellGhosts[gh.Name] = t
				if lit, ok := gh.Expr.(*EBool); ok {
					// `ghost x after F#N = true` starts out false (and vice versa): x says "F#N has been executed"
					srt := "(Array Int Bool)"
					cur := g.heapGet(g.heap, "ghost:"+gh.Name, srt)
					g.heap = g.heap.clone()
					init := "true"
					if lit.V {
						init = "false"
					}
					g.heapSet(g.heap, "ghost:"+gh.Name, srt, "(store "+cur+" 0 "+init+")")
				}
			}
			continue
		}
		func() {
			defer func() { _ = recover() }()
			v := g.freshVal("ghost:"+gh.Name, t)
			g.ghostDefs = append(g.ghostDefs, ghostDef{gh.Name, entry, v, true})
		}()
	}
}

// RunRegion verifies one loop of the function as a region of its own: the loop invariants are the region's
// precondition (everything else about the state on entry is unknown), the loop body is executed once, and every
// back edge must re-establish the invariants. What happens before the loop is first reached and after it exits is
// outside the region. This is how critical sections inside functions that also contain `select`, channel
// operations or goroutine starts are brought under contract.
func (g *Gen) RunRegion(loopOrd int) (err error) {
	defer func() {
		if r := recover(); r != nil {
			if os.Getenv("GOVC_PANIC") != "" {
				panic(r)
			}
			switch e := r.(type) {
			case unsupportedErr:
				err = fmt.Errorf("%s: outside the verified subset: %s", g.unit, string(e))
			case contractError:
				err = fmt.Errorf("%s: contract error: %s", g.unit, string(e))
			default:
				panic(r)
			}
		}
	}()
	fn := g.fn
	curPkgName = ""
	if bp := g.baseEnv().pkg; bp != nil {
		curPkgName = bp.Name()
	}
	g.emitAxioms("")
	g.params = map[string]Val{}
	for _, p := range fn.Params {
		v := g.freshVal("p:"+p.Name(), p.Type())
		g.vals[p] = v
		g.params[p.Name()] = v
		g.typeFacts("true", v)
	}
	for _, fv := range fn.FreeVars {
		v := g.freshVal("fv:"+fv.Name(), fv.Type())
		g.vals[fv] = v
		// a free variable is the ADDRESS of the captured variable; contracts name the variable itself (eval derefs)
		if g.freeVars == nil {
			g.freeVars = map[string]Val{}
		}
		g.freeVars[fv.Name()] = v
		g.typeFacts("true", v)
		// the address of a captured variable is a real, distinct cell
		g.assume("true", "(> "+v.S+" 0)")
		for _, o := range fn.FreeVars {
			if o == fv {
				break
			}
			if types.Identical(o.Type(), fv.Type()) {
				g.assume("true", "(not (= "+v.S+" "+g.vals[o].S+"))")
			}
		}
	}
	g.collectDebugRefs()
	g.findLoops()
	var li *loopInfo
	for _, l := range g.loopOfHeader {
		if l.ordinal == loopOrd {
			li = l
		}
	}
	if li == nil {
		return fmt.Errorf("CONTRACT-ANCHOR-LOST %s: loop %d not found", g.unit, loopOrd)
	}
	g.regionLoop = li
	// the state on entry to the region is arbitrary: every heap is an unconstrained version of its own
	g.heap = &Heap{m: map[string]string{"$gen": "r"}}
	g.heap0 = g.heap.clone()
	g.genAlloc = map[string]string{"r": g.allocTerm(g.heap)}
	g.modLocs = []modLoc{{all: true}}
	// values computed before the loop and used inside it are arbitrary values of their types
	for b := range li.blocks {
		for _, in := range b.Instrs {
			for _, op := range in.Operands(nil) {
				if op == nil || *op == nil {
					continue
				}
				if def, ok := (*op).(ssa.Instruction); ok {
					if v, isVal := (*op).(ssa.Value); isVal && !li.blocks[def.Block()] {
						if _, seen := g.vals[v]; !seen {
							if _, isTuple := v.Type().(*types.Tuple); isTuple || v.Type() == nil {
								continue
							}
							fv := g.freshVal("outer:"+v.Name(), v.Type())
							g.vals[v] = fv
							g.typeFacts("true", fv)
						}
					}
				}
			}
		}
	}
	for _, b := range g.rpo() {
		if li.blocks[b] {
			g.execBlock(b)
		}
	}
	return nil
}

func (g *Gen) entryEnv() *Env {
	env := g.baseEnv()
	env.heap = g.heap0
	env.old = g.heap0
	for k, v := range g.params {
		env.vars[k] = v
	}
	return env
}

func (g *Gen) watchVal(label string, v Val) {
	switch v.K {
	case kScalar:
		g.watch = append(g.watch, WatchTerm{label, v.S})
	case kSlice:
		g.watch = append(g.watch, WatchTerm{label + ".arr", v.Arr}, WatchTerm{label + ".off", v.Off}, WatchTerm{label + ".len", v.Len}, WatchTerm{label + ".cap", v.Cap})
	case kStruct:
		if st, ok := v.T.Underlying().(*types.Struct); ok {
			for i, f := range v.Fs {
				g.watchVal(label+"."+st.Field(i).Name(), f)
			}
		}
	}
}

// typeFacts assumes the representation invariants of a freshly introduced value.
func (g *Gen) typeFacts(guard string, v Val) {
	switch v.K {
	case kScalar:
		if v.T == nil {
			return
		}
		if rf := g.rangeFact(v.S, v.T); rf != "" {
			g.assume(guard, rf)
		}
		switch v.T.Underlying().(type) {
		case *types.Interface:
			g.assume(g.curReach, "(<= "+v.S+" "+g.allocTerm(g.heap)+")")
		case *types.Pointer, *types.Map, *types.Chan, *types.Signature:
			g.assume(guard, "(and (>= "+v.S+" 0) (<= "+v.S+" "+g.allocTerm(g.heap)+"))")
		}
	case kSlice:
		z := g.idxConst(0)
		g.assume(guard, and(g.idxLe(z, v.Off), g.idxLe(z, v.Len), g.idxLe(v.Len, v.Cap),
			"(>= "+v.Arr+" 0)", "(<= "+v.Arr+" "+g.allocTerm(g.heap)+")",
			implies(eq(v.Arr, "0"), and(eq(v.Cap, z), eq(v.Off, z)))))
		if g.mode == "bv" {
			// lengths are bounded so that off+len does not wrap (Go's allocator guarantees far less)
			max := bvConst(new(big.Int).Lsh(big.NewInt(1), 48), 64)
			g.assume(guard, and(g.idxLe(v.Cap, max), g.idxLe(v.Off, max)))
		} else {
			// no slice is longer than 2^56 elements (far beyond any address space)
			g.assume(guard, "(<= "+v.Cap+" 72057594037927936)")
		}
	case kStruct:
		for _, f := range v.Fs {
			g.typeFacts(guard, f)
		}
	}
}

func (g *Gen) collectDebugRefs() {
	g.namedLocal = map[string][]*ssa.DebugRef{}
	for _, b := range g.fn.Blocks {
		for _, in := range b.Instrs {
			if d, ok := in.(*ssa.DebugRef); ok {
				if id, ok := d.Expr.(interface{ String() string }); ok {
					_ = id
				}
				if obj := d.Object(); obj != nil {
					g.namedLocal[obj.Name()] = append(g.namedLocal[obj.Name()], d)
				}
			}
		}
	}
}

func (g *Gen) rpo() []*ssa.BasicBlock {
	seen := map[*ssa.BasicBlock]bool{}
	var post []*ssa.BasicBlock
	var visit func(b *ssa.BasicBlock)
	visit = func(b *ssa.BasicBlock) {
		seen[b] = true
		for _, s := range b.Succs {
			if s.Dominates(b) { // back edge
				continue
			}
			if !seen[s] {
				visit(s)
			}
		}
		post = append(post, b)
	}
	visit(g.fn.Blocks[0])
	for i, j := 0, len(post)-1; i < j; i, j = i+1, j-1 {
		post[i], post[j] = post[j], post[i]
	}
	return post
}

func (g *Gen) edgeCond(p, b *ssa.BasicBlock) string {
	r := g.reach[p]
	if ifi, ok := p.Instrs[len(p.Instrs)-1].(*ssa.If); ok {
		if p.Succs[0] == b && p.Succs[1] == b {
			return r
		}
		c := g.val(ifi.Cond).S
		if p.Succs[0] == b {
			return and(r, c)
		}
		return and(r, not(c))
	}
	return r
}

func (g *Gen) mergeHeaps(preds []*ssa.BasicBlock, conds []string) *Heap {
	var hs []*Heap
	for _, p := range preds {
		hs = append(hs, g.endHeap[p])
	}
	return g.mergeHeapList(hs, conds)
}

// mergeTwoHeaps: heap a where cond holds, heap b otherwise.
func (g *Gen) mergeTwoHeaps(a, b *Heap, cond string) *Heap {
	return g.mergeHeapList([]*Heap{a, b}, []string{cond, not(cond)})
}

// loopOfBlock: the loop (cut at its header) a block belongs to, if any.
func (g *Gen) loopOfBlock(b *ssa.BasicBlock) *loopInfo {
	for _, li := range g.loopOfHeader {
		if li.blocks[b] {
			return li
		}
	}
	return nil
}

func (g *Gen) mergeHeapList(preds []*Heap, conds []string) *Heap {
	if len(preds) == 1 {
		return preds[0].clone()
	}
	names := map[string]bool{}
	for _, p := range preds {
		for n := range p.m {
			names[n] = true
		}
	}
	var sorted []string
	for n := range names {
		sorted = append(sorted, n)
	}
	sort.Strings(sorted)
	h := &Heap{m: map[string]string{}}
	// generation markers (a heap havocked as a whole): equal on all incoming edges -> kept; otherwise the merged
	// heap gets a generation of its own whose not-yet-mentioned heaps are merged lazily (see heapGet)
	{
		gen0, all := preds[0].m["$gen"]
		for _, p := range preds {
			if gv, ok := p.m["$gen"]; ok != all || gv != gen0 {
				all = false
				gen0 = ""
				break
			}
		}
		anyGen := false
		for _, p := range preds {
			if _, ok := p.m["$gen"]; ok {
				anyGen = true
			}
		}
		switch {
		case all && gen0 != "":
			h.m["$gen"] = gen0
		case anyGen:
			g.havocAll++
			id := fmt.Sprintf("%dm", g.havocAll)
			gm := &genMerge{conds: conds}
			for _, p := range preds {
				gm.heaps = append(gm.heaps, p)
			}
			if g.genMerges == nil {
				g.genMerges = map[string]*genMerge{}
			}
			g.genMerges[id] = gm
			h.m["$gen"] = id
		}
	}
	for _, n := range sorted {
		if n == "$gen" {
			continue
		}
		srt := g.heapSorts[n]
		var terms []string
		same := true
		for _, p := range preds {
			var t string
			if n == "$alloc" {
				t = g.allocTerm(p)
			} else {
				t = g.heapGet(p, n, srt)
			}
			terms = append(terms, t)
			if t != terms[0] {
				same = false
			}
		}
		if same {
			h.m[n] = terms[0]
			continue
		}
		t := terms[len(terms)-1]
		for i := len(terms) - 2; i >= 0; i-- {
			t = ite(conds[i], terms[i], t)
		}
		nm := g.fresh("H:"+n, srt)
		g.emit(evAssert, "(assert (= "+nm+" "+t+"))")
		h.m[n] = nm
	}
	return h
}

func (g *Gen) execBlock(b *ssa.BasicBlock) {
	g.curBlock = b
	li := g.loopOfHeader[b]
	// forward predecessors
	var preds []*ssa.BasicBlock
	var conds []string
	for _, p := range b.Preds {
		if b.Dominates(p) && li != nil { // back edge
			continue
		}
		if _, done := g.reach[p]; !done {
			continue // unreachable predecessor
		}
		preds = append(preds, p)
		conds = append(conds, g.edgeCond(p, b))
	}
	regionEntry := g.regionLoop != nil && b == g.regionLoop.header
	if len(b.Preds) == 0 || regionEntry {
		g.reach[b] = "true"
		g.curReach = "true"
	} else {
		if len(preds) == 0 {
			return // unreachable block
		}
		r := or(conds...)
		rn := g.fresh(fmt.Sprintf("reach%d", b.Index), "Bool")
		g.emit(evAssert, "(assert (= "+rn+" "+r+"))")
		g.reach[b] = rn
		g.curReach = rn
		g.heap = g.mergeHeaps(preds, conds)
	}
	// phis
	idx := 0
	phiVals := func(useBack *ssa.BasicBlock) {
		for _, in := range b.Instrs {
			phi, ok := in.(*ssa.Phi)
			if !ok {
				break
			}
			var vs []Val
			var cs []string
			for i, p := range b.Preds {
				for j, fp := range preds {
					if fp == p {
						vs = append(vs, g.coerce(g.val(phi.Edges[i]), phi.Type()))
						cs = append(cs, conds[j])
					}
				}
			}
			g.vals[phi] = g.mergeVals(phi.Type(), vs, cs, "phi:"+phi.Comment)
		}
	}
	if !regionEntry {
		phiVals(nil)
	}
	for idx < len(b.Instrs) {
		if _, ok := b.Instrs[idx].(*ssa.Phi); !ok {
			break
		}
		idx++
	}
	if li != nil {
		g.enterLoop(li, b)
	}
	g.curIdx = idx
	if li != nil {
		g.curIdx = idx // invariants at the header see only the phis
	}
	for k, in := range b.Instrs[idx:] {
		g.curIdx = idx + k
		g.execInstr(in)
	}
	g.curIdx = len(b.Instrs)
	g.endHeap[b] = g.heap
	// back edges leaving this block: check invariants
	for _, s := range b.Succs {
		if sl := g.loopOfHeader[s]; sl != nil && s.Dominates(b) {
			g.checkBackEdge(sl, b)
		}
	}
}

func (g *Gen) mergeVals(t types.Type, vs []Val, cs []string, hint string) Val {
	if len(vs) == 1 {
		return vs[0]
	}
	for _, v := range vs {
		if v.K == kPtr {
			panic(unsupported("interior pointer flows through a phi node (%s)", hint))
		}
	}
	fl := make([][]string, len(vs))
	for i, v := range vs {
		fl[i] = g.flatten(v)
	}
	ls := g.leaves(t)
	var terms []string
	for k := range fl[0] {
		t := fl[len(vs)-1][k]
		for i := len(vs) - 2; i >= 0; i-- {
			t = ite(cs[i], fl[i][k], t)
		}
		if strings.Contains(t, "(ite") {
			n := g.fresh(hint+ls[k].Path, ls[k].Sort)
			g.emit(evAssert, "(assert (= "+n+" "+t+"))")
			t = n
		}
		terms = append(terms, t)
	}
	if len(terms) == 0 {
		return Val{K: kStruct, T: t}
	}
	v, _ := g.unflatten(t, terms)
	return v
}

// ---------- loops ----------

func (g *Gen) loopEnv(li *loopInfo, phiOverride map[string]Val) *Env {
	env := g.baseEnv()
	for k, v := range g.params {
		env.vars[k] = v
	}
	// ghosts bound so far (before the loop, or earlier in this iteration for `step` clauses evaluated at the back
	// edge): the most recent binding of a name wins
	for _, pre := range []bool{true, false} {
		for _, d := range g.ghostDefs {
			if d.pre == pre {
				env.vars[d.name] = d.val
			}
		}
	}
	env.resolve = func(name string, h *Heap) (Val, bool) {
		if name == "rangeiter" {
			name = "rangeint.iter" // counter of a `for range N` loop (go/ssa's name is not an identifier)
		}
		if v, ok := phiOverride[name]; ok {
			return v, true
		}
		return g.resolveLocal(name, li.header, h)
	}
	return env
}

// resolveLocal finds the value of a source-level local variable as seen at the start of block `at`.
func (g *Gen) resolveLocal(name string, at *ssa.BasicBlock, h *Heap) (Val, bool) {
	if name == "rangeiter" {
		name = "rangeint.iter"
	}
	// phi at this block
	for _, in := range at.Instrs {
		if phi, ok := in.(*ssa.Phi); ok {
			if phi.Comment == name {
				if v, ok := g.vals[phi]; ok {
					return v, true
				}
			}
		} else {
			break
		}
	}
	refs := g.namedLocal[name]
	if os.Getenv("GOVC_DEBUGNAME") == name {
		for _, d := range refs {
			_, has := g.vals[d.X]
			fmt.Fprintf(os.Stderr, "DEBUGNAME %s: ref in block %d X=%v (%T) hasVal=%v dominates(at=%d)=%v\n", name, d.Block().Index, d.X, d.X, has, at.Index, d.Block().Dominates(at))
		}
	}
	var best *ssa.DebugRef
	for _, d := range refs {
		db := d.Block()
		if db == at {
			// same block: only references that were already executed
			if at != g.curBlock || g.instrIndex(d) >= g.curIdx {
				continue
			}
		} else if !db.Dominates(at) {
			continue
		}
		if _, ok := g.vals[d.X]; !ok {
			if _, isConst := d.X.(*ssa.Const); !isConst {
				if _, isParam := d.X.(*ssa.Parameter); !isParam {
					continue
				}
			}
		}
		if best == nil || best.Block().Dominates(db) {
			best = d
		}
	}
	if best == nil || isConstValue(best.X) {
		// The dominating reference (if any) only records the variable's zero value. If every other reference names
		// one and the same SSA value whose definition dominates `at`, that value is the variable (it is assigned once).
		var only ssa.Value
		consistent := true
		for _, d := range refs {
			if isConstValue(d.X) || d.IsAddr {
				continue
			}
			if only == nil {
				only = d.X
			} else if only != d.X {
				consistent = false
			}
		}
		if only != nil && consistent {
			if in, ok := only.(ssa.Instruction); ok && in.Block() != nil && (in.Block() == at || in.Block().Dominates(at)) {
				if v, ok := g.vals[only]; ok {
					return v, true
				}
			}
		}
	}
	// a phi carrying the variable's name in a dominating block is a (re)definition too: if it is later than the
	// best reference found, it is the variable's value (the variable may simply not be mentioned again before `at`)
	var bestPhi *ssa.Phi
	for _, b := range g.fn.Blocks {
		if b == at || !b.Dominates(at) {
			continue
		}
		for _, in := range b.Instrs {
			phi, ok := in.(*ssa.Phi)
			if !ok {
				break
			}
			if phi.Comment != name {
				continue
			}
			if _, ok := g.vals[phi]; !ok {
				continue
			}
			if bestPhi == nil || bestPhi.Block().Dominates(b) {
				bestPhi = phi
			}
		}
	}
	if bestPhi != nil && (best == nil || (best.Block() != bestPhi.Block() && best.Block().Dominates(bestPhi.Block()))) {
		return g.vals[bestPhi], true
	}
	if best == nil {
		return Val{}, false
	}
	v := g.val(best.X)
	if best.IsAddr {
		return g.load(h, g.ptrOf(v)), true
	}
	return v, true
}

func isConstValue(v ssa.Value) bool {
	_, ok := v.(*ssa.Const)
	return ok
}

// tryEval evaluates e; an unknown name is reported as !ok (events emitted meanwhile are rolled back).
func (g *Gen) tryEval(e Expr, env *Env) (v Val, ok bool) {
	n := len(g.events)
	decl := make(map[string]bool, len(g.declared))
	for k, v := range g.declared {
		decl[k] = v
	}
	nstr := len(g.strOrder)
	defer func() {
		if r := recover(); r != nil {
			if ce, isCE := r.(contractError); isCE && strings.Contains(string(ce), "unknown name") {
				g.events = g.events[:n]
				g.declared = decl
				for _, s := range g.strOrder[nstr:] {
					delete(g.strConsts, s)
				}
				g.strOrder = g.strOrder[:nstr]
				ok = false
				return
			}
			panic(r)
		}
	}()
	return g.eval(e, env), true
}

func (g *Gen) instrIndex(in ssa.Instruction) int {
	for i, x := range in.Block().Instrs {
		if x == in {
			return i
		}
	}
	return -1
}

// localEnv: environment in which source-level local names resolve to their current values at the
// instruction being executed; parameters keep their entry values (use cur(x) for a reassigned parameter).
func (g *Gen) localEnv() *Env {
	env := g.baseEnv()
	for k, v := range g.params {
		env.vars[k] = v
	}
	// a ghost is visible where its defining point dominates (the innermost such definition wins)
	best := map[string]*ssa.BasicBlock{}
	for _, d := range g.ghostDefs {
		if d.pre || g.curBlock == nil || !(d.block == g.curBlock || d.block.Dominates(g.curBlock)) {
			continue
		}
		if b, ok := best[d.name]; !ok || b.Dominates(d.block) {
			best[d.name] = d.block
			env.vars[d.name] = d.val
		}
	}
	// a definition that does not dominate this point is still usable: on executions that did not pass through it
	// the value is an unconstrained term, i.e. arbitrary (clauses guard their use, e.g. `found ==> expiry <= now`)
	for _, pre := range []bool{false, true} {
		for _, d := range g.ghostDefs {
			if _, ok := env.vars[d.name]; !ok && d.pre == pre {
				env.vars[d.name] = d.val
			}
		}
	}
	env.heap = g.heap
	env.old = g.heap0
	b := g.curBlock
	env.resolve = func(name string, h *Heap) (Val, bool) { return g.resolveLocal(name, b, h) }
	return env
}

func (g *Gen) enterLoop(li *loopInfo, b *ssa.BasicBlock) {
	if li.spec == nil {
		li.spec = &LoopSpec{}
	}
	tag := fmt.Sprintf("loop%d", li.ordinal)
	// 1. invariants hold on entry (not for the loop verified as a region: there the invariant is the region's
	// precondition; that it holds when the loop is first reached is outside the region and not claimed)
	env := g.loopEnv(li, nil)
	if g.regionLoop != li {
		for i, c := range li.spec.Invariants {
			goal := g.evalBool(c.Expr, env)
			g.oblig("inv-init", fmt.Sprintf("%s.%s", tag, clauseName(c, i)), goal, c.Src, token.NoPos, true)
		}
		for _, ar := range g.autoRangeInv(li) {
			g.oblig("inv-init", tag+".auto-rangeindex", ar.at(g.vals[ar.phi].S), "-1 <= rangeindex < len", token.NoPos, false)
		}
	}
	li.entryHeap = g.heap.clone()
	// 2. havoc loop-modified state
	names, all := g.writtenHeaps(li.blocks)
	if all {
		g.havocEverything("loop")
	}
	var sorted []string
	for n := range names {
		sorted = append(sorted, n)
	}
	sort.Strings(sorted)
	restrict := g.loopModLocs(li)
	for _, n := range sorted {
		if n == "$alloc" && g.regionLoop == li {
			// the region starts here: there is no earlier allocation state to be distinguished from
			continue
		}
		if n == "$alloc" {
			old := g.allocTerm(g.heap)
			nr := g.fresh("alloc", "Int")
			g.assume("true", "(>= "+nr+" "+old+")")
			g.heap.m["$alloc"] = nr
			continue
		}
		srt := names[n]
		old := g.heapGet(g.heap, n, srt)
		nh := g.freshHeap("H:", n, srt)
		if locs, ok := restrict[n]; ok && !strings.HasPrefix(n, "cell:") {
			// loop modifies only the listed objects of this heap
			t := old
			for _, base := range locs {
				t = "(store " + t + " " + base + " (select " + nh + " " + base + "))"
			}
			g.emit(evAssert, "(assert (= "+nh+" "+t+"))")
		} else if strings.HasPrefix(n, "cell:") || true {
			// objects allocated after loop entry may have been written freely; older objects of this heap
			// that the loop does not name are covered by the invariant (the user states what is kept).
		}
		g.heap.m[n] = nh
	}
	for _, in := range b.Instrs {
		phi, ok := in.(*ssa.Phi)
		if !ok {
			break
		}
		v := g.freshVal("loop:"+phi.Comment, phi.Type())
		g.vals[phi] = v
		g.typeFacts(g.curReach, v)
		g.watchVal(fmt.Sprintf("%s %s", tag, phi.Comment), v)
		if ii, ok := intInfoOf(phi.Type()); ok && ii.bits == 64 && v.K == kScalar {
			g.witness(v.S, phi.Type())
			g.witness(g.idxAdd(v.S, g.idxConst(1)), phi.Type())
		}
	}
	// automatic invariant of go/ssa's range-index loops: -1 <= rangeindex < len (checked below like any other)
	for _, ar := range g.autoRangeInv(li) {
		g.assume(g.curReach, ar.at(g.vals[ar.phi].S))
	}
	// 3. assume invariants in the havocked state
	env = g.loopEnv(li, nil)
	for _, c := range li.spec.Invariants {
		g.assume(g.curReach, g.evalBool(c.Expr, env))
	}
	g.startHeap[b] = g.heap.clone()
	g.cover(tag)
}

type autoRange struct {
	phi *ssa.Phi
	at  func(v string) string
	init, next ssa.Value
}

// autoRangeInv recognises `phi #rangeindex; t = phi + 1; c = t < n; if c` in a loop header.
func (g *Gen) autoRangeInv(li *loopInfo) []autoRange {
	var res []autoRange
	h := li.header
	for _, in := range h.Instrs {
		phi, ok := in.(*ssa.Phi)
		if !ok {
			break
		}
		if phi.Comment != "rangeindex" {
			continue
		}
		var n ssa.Value
		for _, in2 := range h.Instrs {
			if cmp, ok := in2.(*ssa.BinOp); ok && cmp.Op == token.LSS {
				if add, ok := cmp.X.(*ssa.BinOp); ok && add.Op == token.ADD && add.X == phi {
					n = cmp.Y
				}
			}
		}
		if n == nil {
			continue
		}
		if _, ok := g.vals[n]; !ok {
			if _, isConst := n.(*ssa.Const); !isConst {
				continue
			}
		}
		nv := g.val(n).S
		m1 := g.intConst(big.NewInt(-1), intT)
		res = append(res, autoRange{phi: phi, at: func(v string) string {
			return and(g.idxLe(m1, v), g.idxLt(v, nv), g.idxLe(g.idxConst(0), nv))
		}})
	}
	return res
}

func clauseName(c Clause, i int) string {
	if c.Name != "" {
		return c.Name
	}
	return fmt.Sprint(i + 1)
}

func (g *Gen) guessHeapSort(n string) string { return "" }

// loopModLocs: per heap name, the base references the loop may modify (from `loop N modifies`).
func (g *Gen) loopModLocs(li *loopInfo) map[string][]string {
	res := map[string][]string{}
	if li.spec == nil || len(li.spec.Modifies) == 0 {
		return res
	}
	env := g.loopEnv(li, nil)
	for _, m := range li.spec.Modifies {
		for _, ml := range g.evalModLoc(m, env) {
			for _, hn := range ml.heaps {
				res[hn] = append(res[hn], ml.base)
			}
		}
	}
	return res
}

func (g *Gen) checkBackEdge(li *loopInfo, from *ssa.BasicBlock) {
	h := li.header
	save := g.curReach
	g.curReach = g.edgeCond(from, h)
	override := map[string]Val{}
	for _, in := range h.Instrs {
		phi, ok := in.(*ssa.Phi)
		if !ok {
			break
		}
		for i, p := range h.Preds {
			if p == from {
				override[phi.Comment] = g.coerce(g.val(phi.Edges[i]), phi.Type())
			}
		}
	}
	env := g.loopEnv(li, override)
	env.heap = g.heap
	tag := fmt.Sprintf("loop%d", li.ordinal)
	for i, c := range li.spec.Invariants {
		goal := g.evalBool(c.Expr, env)
		g.oblig("inv-preserve", fmt.Sprintf("%s.%s", tag, clauseName(c, i)), goal, c.Src, token.NoPos, true)
	}
	if len(li.spec.Steps) > 0 {
		senv := g.localEnv()
		senv.resolve = env.resolve
		senv.heap = g.heap
		senv.pre = g.endHeapAtHeader(li)
		senv.preResolve = g.loopEnv(li, nil).resolve // before(x) of a local: its value at the start of the iteration
		for i, c := range li.spec.Steps {
			goal := g.evalBool(c.Expr, senv)
			g.oblig("step", fmt.Sprintf("%s.%s", tag, clauseName(c, i)), goal, c.Src, token.NoPos, true)
		}
	}
	for _, ar := range g.autoRangeInv(li) {
		if v, ok := override["rangeindex"]; ok {
			g.oblig("inv-preserve", tag+".auto-rangeindex", ar.at(v.S), "-1 <= rangeindex < len", token.NoPos, false)
		}
	}
	if d := li.spec.Decreases; d != nil {
		// variant: value at the back edge is smaller than at the loop head and the head value is non-negative
		headEnv := g.loopEnv(li, nil)
		headEnv.heap = g.endHeapAtHeader(li)
		v0 := g.coerce(g.eval(d.Expr, headEnv), intT)
		v1 := g.coerce(g.eval(d.Expr, env), intT)
		goal := and(g.intCmp("<", v1.S, v0.S, intT), g.intCmp(">=", v0.S, g.intConst(big.NewInt(0), intT), intT))
		g.oblig("variant", tag, goal, d.Src, token.NoPos, true)
	}
	g.curReach = save
}

func (g *Gen) endHeapAtHeader(li *loopInfo) *Heap {
	// the heap right after havoc at the header: recorded as the header's start heap
	if h, ok := g.startHeap[li.header]; ok {
		return h
	}
	return g.heap
}

// relockHeap: heap of a map type listed in `track-locks relock-havoc`.
func (g *Gen) relockHeap(n string) bool {
	if g.fc == nil {
		return false
	}
	if !strings.HasPrefix(n, "map:") {
		// a struct field heap, listed as Type.field (e.g. keyedKeyState.version)
		for _, u := range g.fc.RelockHavoc {
			if !strings.Contains(u, "[") && (n == u || strings.HasSuffix(n, "."+u) || (curPkgName != "" && n == curPkgName+"."+u)) {
				return true
			}
		}
		return false
	}
	norm := func(s string) string {
		if curPkgName != "" {
			s = strings.ReplaceAll(s, curPkgName+".", "")
		}
		return strings.ReplaceAll(s, " ", "")
	}
	for _, u := range g.fc.RelockHavoc {
		if strings.HasPrefix(norm(n), "map:"+norm(u)+"#") {
			return true
		}
	}
	return false
}

// unescapedHeap: heap of a map type declared `assume unescaped` in the unit's contract (package qualifiers of the
// verified package may be omitted in the contract).
func (g *Gen) unescapedHeap(n string) bool {
	if g.fc == nil || len(g.fc.Unescaped) == 0 || !strings.HasPrefix(n, "map:") {
		return false
	}
	norm := func(s string) string {
		if curPkgName != "" {
			s = strings.ReplaceAll(s, curPkgName+".", "")
		}
		return strings.ReplaceAll(s, " ", "")
	}
	for _, u := range g.fc.Unescaped {
		if strings.HasPrefix(norm(n), "map:"+norm(u)+"#") {
			return true
		}
	}
	return false
}

func (g *Gen) havocEverything(why string) {
	g.havocAll++
	before := map[string]string{}
	for n, t := range g.heap.m {
		before[n] = t
	}
	defer func() {
		// non-escaping local variables keep their contents
		for _, la := range g.localAllocs {
			func() {
				defer func() { _ = recover() }()
				p := g.ptrTo(la.ref, la.t)
				for _, l := range g.leaves(la.t) {
					hn := p.Prefix + l.Path
					old, ok := before[hn]
					cur, ok2 := g.heap.m[hn]
					if !ok || !ok2 || old == cur {
						continue
					}
					g.heap.m[hn] = g.define("keep", g.heapSorts[hn], fmt.Sprintf("(store %s %s (select %s %s))", cur, la.ref, old, la.ref))
				}
			}()
		}
	}()
	var names []string
	for n := range g.heapSorts {
		names = append(names, n)
	}
	sort.Strings(names)
	for _, n := range names {
		if n == "$alloc" {
			old := g.allocTerm(g.heap)
			nr := g.fresh("alloc", "Int")
			g.assume("true", "(>= "+nr+" "+old+")")
			g.heap.m["$alloc"] = nr
			continue
		}
		if strings.HasPrefix(n, "ghost:") {
			// expression ghosts are specification state: no code changes them
			if _, ok := g.heap.m[n]; !ok {
				g.heap.m[n] = g.heapGet(g.heap, n, g.heapSorts[n])
			}
			continue
		}
		if strings.HasPrefix(n, "held:") {
			// lock ghost bits (track-locks) survive calls to unknown code: a callee is assumed not to release or
			// take its caller's locks (recorded as an assumption where track-locks is used)
			if _, ok := g.heap.m[n]; !ok {
				g.heap.m[n] = g.heapGet(g.heap, n, g.heapSorts[n])
			}
			continue
		}
		if g.unescapedHeap(n) {
			g.addAssumption("unescaped (maps of these types never reach a callee, so unknown callees leave them unchanged): " + strings.Join(g.fc.Unescaped, ", "))
			if _, ok := g.heap.m[n]; !ok {
				g.heap.m[n] = g.heapGet(g.heap, n, g.heapSorts[n])
			}
			continue
		}
		g.heap.m[n] = g.freshHeap("Hx:", n, g.heapSorts[n])
	}
	// heaps first touched later still see their initial constant: mark generation so that they get a fresh one
	g.heap.m["$gen"] = fmt.Sprint(g.havocAll)
	if g.genAlloc == nil {
		g.genAlloc = map[string]string{}
	}
	g.genAlloc[fmt.Sprint(g.havocAll)] = g.allocTerm(g.heap)
}

// ---------- values ----------

func (g *Gen) val(v ssa.Value) Val {
	if x, ok := g.vals[v]; ok {
		return x
	}
	switch c := v.(type) {
	case *ssa.Const:
		return g.constVal(c)
	case *ssa.Global:
		return sv(c.Type(), g.globalRef(c.Pkg.Pkg.Path()+"."+c.Name()))
	case *ssa.Function:
		n := quote("fn:" + c.String())
		if !g.declared[n] {
			g.declared[n] = true
			g.emit(evDecl, "(declare-const "+n+" Int)")
			g.emit(evAssert, "(assert (> "+n+" 0))")
		}
		return sv(c.Type(), n)
	case *ssa.Builtin:
		return sv(c.Type(), "0")
	}
	panic(unsupported("use of value %s (%T) before definition", v.Name(), v))
}

func (g *Gen) constVal(c *ssa.Const) Val {
	t := c.Type()
	if c.Value == nil {
		return g.zero(t)
	}
	switch c.Value.Kind() {
	case constant.Bool:
		if constant.BoolVal(c.Value) {
			return sv(t, "true")
		}
		return sv(t, "false")
	case constant.String:
		return sv(t, g.strConst(constant.StringVal(c.Value)))
	case constant.Int:
		n, _ := new(big.Int).SetString(c.Value.ExactString(), 10)
		if isFloat(t) {
			return sv(t, g.fltConst(n.String()))
		}
		return sv(t, g.intConst(n, t))
	case constant.Float:
		return sv(t, g.fltConst(c.Value.ExactString()))
	}
	panic(unsupported("constant %s", c))
}

func constInt(v ssa.Value) *big.Int {
	if c, ok := v.(*ssa.Const); ok && c.Value != nil && c.Value.Kind() == constant.Int {
		n, _ := new(big.Int).SetString(c.Value.ExactString(), 10)
		return n
	}
	return nil
}

// ---------- instructions ----------

func (g *Gen) execInstr(in ssa.Instruction) {
	if len(g.pendingAsserts) > 0 || len(g.pendingGhosts) > 0 {
		switch in.(type) {
		case *ssa.DebugRef, *ssa.Extract, *ssa.Store:
		default:
			pg := g.pendingGhosts
			g.pendingGhosts = nil
			for _, c := range pg {
				if g.ghostVals == nil {
					g.ghostVals = map[string]Val{}
				}
				genv := g.localEnv()
				if rv, has := g.pendingGhostRes[c.Name]; has {
					// `result` / `result.N` inside a ghost expression: what the anchoring call returned
					if len(rv.Fs) > 0 {
						genv.results = rv.Fs
					} else {
						genv.results = []Val{rv}
					}
				}
				v, ok := g.tryEval(c.Expr, genv)
				if !ok {
					// a name it mentions is not bound yet (its first reference comes later): try again at the next
					// instruction; the block's terminator is the last chance
					switch in.(type) {
					case *ssa.If, *ssa.Jump, *ssa.Return, *ssa.Panic:
						g.eval(c.Expr, genv) // raises the contract error
					}
					g.pendingGhosts = append(g.pendingGhosts, c)
					continue
				}
				if v.K == kUntyped {
					v = g.coerce(v, intT)
				}
				g.ghostVals[c.Name] = v
				g.ghostDefs = append(g.ghostDefs, ghostDef{c.Name, g.curBlock, v, false})
				if v.K == kScalar && !isComposite(v.T) {
					// scalar expression ghosts also live in the symbolic state (see eval of EIdent): path-sensitive
					if g.cellGhosts == nil {
						g.cellGhosts = map[string]types.Type{}
					}
					if _, known := g.cellGhosts[c.Name]; !known {
						g.cellGhosts[c.Name] = v.T
					}
					if types.Identical(g.cellGhosts[c.Name].Underlying(), v.T.Underlying()) || g.scalarSort(g.cellGhosts[c.Name]) == g.scalarSort(v.T) {
						srt := "(Array Int " + g.scalarSort(g.cellGhosts[c.Name]) + ")"
						cur := g.heapGet(g.heap, "ghost:"+c.Name, srt)
						g.heap = g.heap.clone()
						g.heapSet(g.heap, "ghost:"+c.Name, srt, "(store "+cur+" 0 "+v.S+")")
					}
				}
			}
			if len(g.pendingGhosts) > 0 {
				// assertions may depend on the ghosts: keep them pending as well
				break
			}
			pa := g.pendingAsserts
			g.pendingAsserts = nil
			env := g.localEnv()
			for _, c := range pa {
				g.oblig("assert", c.Name, g.evalBool(c.Expr, env), c.Src, in.Pos(), true)
			}
		}
	}
	switch x := in.(type) {
	case *ssa.DebugRef:
		return
	case *ssa.Alloc:
		pt := x.Type().Underlying().(*types.Pointer).Elem()
		r := g.newRef("new:" + x.Comment)
		p := g.ptrTo(r, pt)
		if len(g.leaves(pt)) > 0 {
			g.store(g.heap, p, g.zero(pt))
		}
		if g.pc != nil {
			// ghost fields of a new object start at their zero value
			tn := g.typeName(pt)
			for _, gf := range g.allGhostFields() {
				if gf.Struct == tn || lastPkgElem(gf.Struct) == tn {
					gt := g.resolveType(g.baseEnv(), gf.Type)
					g.store(g.heap, Ptr{Prefix: p.Prefix + ".ghost:" + gf.Name, Idx: p.Idx, T: gt}, g.zero(gt))
				}
			}
		}
		g.vals[x] = sv(x.Type(), r)
		if !x.Heap || allocPrivate(x) {
			// a local variable whose address never leaves the function (go/ssa's conservative escape flag), or one
			// that is only captured by closures of this function that never assign it: code without contract
			// cannot change it - see havocEverything
			g.localAllocs = append(g.localAllocs, localAlloc{r, pt})
		}
	case *ssa.BinOp:
		g.vals[x] = g.binop(x)
	case *ssa.UnOp:
		g.vals[x] = g.unop(x)
	case *ssa.Phi:
		panic(unsupported("phi after non-phi"))
	case *ssa.Call:
		g.vals[x] = g.call(x, x.Common(), x.Type())
	case *ssa.ChangeType:
		v := g.val(x.X)
		v.T = x.Type()
		g.vals[x] = v
	case *ssa.Convert:
		g.vals[x] = g.convert(x)
	case *ssa.ChangeInterface:
		v := g.val(x.X)
		v.T = x.Type()
		g.vals[x] = v
	case *ssa.MakeInterface:
		v := g.val(x.X)
		g.vals[x] = sv(x.Type(), g.define("iface", "Int", g.box(v)))
	case *ssa.Extract:
		t := g.val(x.Tuple)
		g.vals[x] = t.Fs[x.Index]
	case *ssa.Field:
		s := g.val(x.X)
		g.vals[x] = s.Fs[x.Field]
	case *ssa.FieldAddr:
		base := g.val(x.X)
		if base.K == kScalar {
			g.nilCheck(base.S, x.Pos(), x.X)
		}
		p := g.ptrOf(base)
		st := p.T.Underlying().(*types.Struct)
		f := st.Field(x.Field)
		g.vals[x] = Val{K: kPtr, T: x.Type(), P: &Ptr{Prefix: p.Prefix + "." + f.Name(), Idx: p.Idx, T: f.Type()}}
	case *ssa.IndexAddr:
		g.vals[x] = g.indexAddr(x)
	case *ssa.Index:
		a := g.val(x.X)
		i := g.toIdx(g.val(x.Index))
		switch u := x.X.Type().Underlying().(type) {
		case *types.Array:
			g.boundsCheck(i, g.idxConst(u.Len()), x.Pos())
			g.vals[x] = sv(x.Type(), sel(a.S, i))
		case *types.Basic: // string index
			g.boundsCheck(i, "(slen "+a.S+")", x.Pos())
			g.vals[x] = sv(x.Type(), "(sat "+a.S+" "+i+")")
		default:
			panic(unsupported("Index on %s", x.X.Type()))
		}
	case *ssa.Lookup:
		g.vals[x] = g.lookup(x)
	case *ssa.Slice:
		g.vals[x] = g.sliceOp(x)
	case *ssa.MakeSlice:
		et := x.Type().Underlying().(*types.Slice).Elem()
		ln := g.toIdx(g.val(x.Len))
		cp := g.toIdx(g.val(x.Cap))
		z := g.idxConst(0)
		g.oblig("bounds", "make:"+g.srcText(x.Pos()), and(g.idxLe(z, ln), g.idxLe(ln, cp)), "make: 0 <= len <= cap", x.Pos(), false)
		arr := g.newRef("arr")
		for j, l := range g.leaves(et) {
			hn := "[]" + g.typeName(et) + l.Path
			hs := g.heapSort(l.Sort, 2)
			ht := g.heapGet(g.heap, hn, hs)
			zt := g.flatten(g.zero(et))[j]
			g.heapSet(g.heap, hn, hs, fmt.Sprintf("(store %s %s ((as const (Array %s %s)) %s))", ht, arr, g.idxSort(), l.Sort, zt))
		}
		g.vals[x] = Val{K: kSlice, T: x.Type(), Arr: arr, Off: z, Len: ln, Cap: cp}
	case *ssa.MakeMap:
		mt := x.Type().Underlying().(*types.Map)
		r := g.newRef("map")
		env := g.baseEnv()
		env.heap = g.heap
		dom, ln, _, _ := g.mapHeaps(env, mt)
		base := "map:" + g.typeName(mt)
		ks := g.scalarSort(mt.Key())
		g.heapSet(g.heap, base+"#dom", "(Array Int (Array "+ks+" Bool))", fmt.Sprintf("(store %s %s ((as const (Array %s Bool)) false))", dom, r, ks))
		g.heapSet(g.heap, base+"#len", "(Array Int "+g.idxSort()+")", fmt.Sprintf("(store %s %s %s)", ln, r, g.idxConst(0)))
		g.vals[x] = sv(x.Type(), r)
	case *ssa.MakeClosure:
		r := g.newRef("closure")
		ci := &closureInfo{fn: x.Fn.(*ssa.Function)}
		for _, b := range x.Bindings {
			ci.bindings = append(ci.bindings, g.val(b))
		}
		v := sv(x.Type(), r)
		g.vals[x] = v
		g.closures[x] = ci
	case *ssa.MakeChan:
		g.vals[x] = sv(x.Type(), g.newRef("chan"))
	case *ssa.MapUpdate:
		g.mapUpdate(x)
	case *ssa.Store:
		addr := g.val(x.Addr)
		if addr.K == kScalar {
			g.nilCheck(addr.S, x.Pos(), x.Addr)
		}
		p := g.ptrOf(addr)
		g.frameCheck(p, x.Pos())
		g.store(g.heap, p, g.val(x.Val))
	case *ssa.If, *ssa.Jump:
		return
	case *ssa.Return:
		g.doReturn(x)
	case *ssa.Panic:
		if g.fc != nil && g.fc.AllowPanic {
			return
		}
		g.oblig("panic", g.srcText(x.Pos()), "false", "explicit panic is unreachable", x.Pos(), false)
	case *ssa.TypeAssert:
		g.vals[x] = g.typeAssert(x)
	case *ssa.Defer:
		g.defers = append(g.defers, x)
	case *ssa.RunDefers:
		for i := len(g.defers) - 1; i >= 0; i-- {
			d := g.defers[i]
			if !d.Block().Dominates(g.curBlock) {
				// a defer that only some paths to this return have executed: run it under the condition that its
				// block was executed (loops are cut, so "block executed" means "executed before this point")
				flag, ok := g.reach[d.Block()]
				if !ok {
					continue // the defer statement lies on no path to this point
				}
				if g.loopOfBlock(d.Block()) != nil {
					panic(unsupported("defer inside a loop"))
				}
				before := g.heap.clone()
				save := g.curReach
				g.curReach = and(save, flag)
				g.call(d, d.Common(), nil)
				g.curReach = save
				g.heap = g.mergeTwoHeaps(g.heap, before, flag)
				continue
			}
			g.call(d, d.Common(), nil)
		}
	case *ssa.Go:
		name := g.calleeName(x.Common())
		if !g.isListed(g.fc.Pure, "go "+name) {
			panic(unsupported("go statement `go %s` (list it as `assume pure go %s` to ignore the spawned goroutine)", name, name))
		}
		g.addAssumption("goroutine `go " + name + "` not executed (spawn ignored)")
		// A spawn is a call site `go NAME#N` for `callsite ... requires` clauses: "this goroutine is started here,
		// under this condition, with these arguments" (arg0.. = the call's arguments; closures: captured values are
		// reachable by their names). If the spawn disappears from the code the clause is reported as lost.
		if g.fc != nil && g.fc.CallSites != nil {
			gname := "go " + name
			if g.callCount == nil {
				g.callCount = map[string]int{}
			}
			if ord, ok := g.siteOrdinal(x); ok {
				g.callCount[gname] = ord
			} else {
				g.callCount[gname]++
			}
			site := fmt.Sprintf("%s#%d", gname, g.callCount[gname])
			for k, cs := range g.fc.CallSites {
				if k == site || "go "+lastPkgElem(name)+fmt.Sprintf("#%d", g.callCount[gname]) == k || (curPkgName != "" && strings.ReplaceAll("go "+lastPkgElem(name), curPkgName+".", "")+fmt.Sprintf("#%d", g.callCount[gname]) == k) {
					g.markSite("callsite " + k)
					if len(cs.Requires) > 0 {
						g.callSiteRequires(cs, site, x.Common(), x.Pos())
					}
				}
			}
		}
	case *ssa.Send:
		g.addAssumption("channel operations (send, receive, select) are treated as scheduling points without effect on verified state: a receive yields an arbitrary value, a select takes any branch; blocking, ordering and termination are not modelled")
	case *ssa.Select:
		g.addAssumption("channel operations (send, receive, select) are treated as scheduling points without effect on verified state: a receive yields an arbitrary value, a select takes any branch; blocking, ordering and termination are not modelled")
		tup := x.Type().(*types.Tuple)
		idx := g.freshVal("select.idx", tup.At(0).Type())
		lo := int64(0)
		if !x.Blocking {
			lo = -1
		}
		g.assume(g.curReach, and(g.intCmp("<=", g.intConst(big.NewInt(lo), tup.At(0).Type()), idx.S, tup.At(0).Type()), g.intCmp("<", idx.S, g.intConst(big.NewInt(int64(len(x.States))), tup.At(0).Type()), tup.At(0).Type())))
		fs := []Val{idx, sv(boolT, g.fresh("select.ok", "Bool"))}
		for i := 2; i < tup.Len(); i++ {
			v := g.freshVal("select.recv", tup.At(i).Type())
			g.typeFacts(g.curReach, v)
			fs = append(fs, v)
		}
		g.vals[x] = Val{K: kStruct, T: x.Type(), Fs: fs}
	case *ssa.Range:
		g.vals[x] = sv(x.Type(), g.newRef("iter"))
		g.rangeOver[x] = x.X
		if mt, ok := x.X.Type().Underlying().(*types.Map); ok {
			// ghost: the set of keys this iteration has yielded so far (contracts: rangeseen(k))
			ks := g.scalarSort(mt.Key())
			g.heapSet(g.heap, g.rangeSeenName(x), "(Array "+ks+" Bool)", "((as const (Array "+ks+" Bool)) false)")
		}
	case *ssa.Next:
		g.vals[x] = g.next(x)
	default:
		panic(unsupported("instruction %T (%s)", in, in))
	}
}

func (g *Gen) nilCheck(ref string, pos token.Pos, v ssa.Value) {
	if g.nilProved[ref] != nil {
		for _, b := range g.nilProved[ref] {
			if b == g.curBlock || b.Dominates(g.curBlock) {
				return
			}
		}
	}
	// addresses of locals/globals and fresh objects are non-nil by construction
	switch v.(type) {
	case *ssa.Alloc, *ssa.Global, *ssa.MakeSlice, *ssa.MakeMap:
		return
	}
	g.nilProved[ref] = append(g.nilProved[ref], g.curBlock)
	g.oblig("nil", g.srcText(pos), not(eq(ref, "0")), "nil dereference", pos, false)
}

func (g *Gen) boundsCheck(i, n string, pos token.Pos) {
	z := g.idxConst(0)
	g.oblig("bounds", g.srcText(pos), and(g.idxLe(z, i), g.idxLt(i, n)), "index in range", pos, false)
}

func (g *Gen) indexAddr(x *ssa.IndexAddr) Val {
	base := g.val(x.X)
	i := g.toIdx(g.val(x.Index))
	g.witness(i, intT)
	switch u := x.X.Type().Underlying().(type) {
	case *types.Slice:
		g.boundsCheck(i, base.Len, x.Pos())
		return Val{K: kPtr, T: x.Type(), P: &Ptr{Prefix: "[]" + g.typeName(u.Elem()), Idx: []string{base.Arr, g.elemIdx(base.Off, i)}, T: u.Elem()}}
	case *types.Pointer:
		at := u.Elem().Underlying().(*types.Array)
		g.boundsCheck(i, g.idxConst(at.Len()), x.Pos())
		if base.K == kScalar {
			g.nilCheck(base.S, x.Pos(), x.X)
		}
		p := g.ptrOf(base)
		return Val{K: kPtr, T: x.Type(), P: &Ptr{Prefix: p.Prefix, Idx: append(append([]string{}, p.Idx...), i), T: at.Elem()}}
	}
	panic(unsupported("IndexAddr on %s", x.X.Type()))
}

func (g *Gen) sliceOp(x *ssa.Slice) Val {
	base := g.val(x.X)
	z := g.idxConst(0)
	lo := z
	if x.Low != nil {
		lo = g.toIdx(g.val(x.Low))
	}
	switch u := x.X.Type().Underlying().(type) {
	case *types.Slice:
		hi := base.Len
		if x.High != nil {
			hi = g.toIdx(g.val(x.High))
		}
		mx := base.Cap
		if x.Max != nil {
			mx = g.toIdx(g.val(x.Max))
		}
		goal := and(g.idxLe(z, lo), g.idxLe(lo, hi), g.idxLe(hi, mx), g.idxLe(mx, base.Cap))
		g.oblig("bounds", g.srcText(x.Pos()), goal, "slice bounds 0 <= lo <= hi <= max <= cap", x.Pos(), false)
		return Val{K: kSlice, T: x.Type(), Arr: base.Arr, Off: g.elemIdx(base.Off, lo), Len: g.idxSub(hi, lo), Cap: g.idxSub(mx, lo)}
	case *types.Basic: // string
		hi := "(slen " + base.S + ")"
		if x.High != nil {
			hi = g.toIdx(g.val(x.High))
		}
		goal := and(g.idxLe(z, lo), g.idxLe(lo, hi), g.idxLe(hi, "(slen "+base.S+")"))
		g.oblig("bounds", g.srcText(x.Pos()), goal, "string slice bounds", x.Pos(), false)
		return sv(x.Type(), g.define("sub", "Str", "(ssub "+base.S+" "+lo+" "+hi+")"))
	case *types.Pointer: // pointer to array
		at := u.Elem().Underlying().(*types.Array)
		n := g.idxConst(at.Len())
		hi := n
		if x.High != nil {
			hi = g.toIdx(g.val(x.High))
		}
		goal := and(g.idxLe(z, lo), g.idxLe(lo, hi), g.idxLe(hi, n))
		g.oblig("bounds", g.srcText(x.Pos()), goal, "array slice bounds", x.Pos(), false)
		if base.K == kPtr && x.Low == nil && x.High == nil && x.Max == nil && at.Len() <= 16 {
			// arr[:] of a small array embedded in a struct, used only as the destination of copy(): the slice value
			// remembers the array's location (P) and copyOp stores element by element into the field's heap
			onlyCopyDst := true
			for _, ref := range *x.Referrers() {
				switch r := ref.(type) {
				case *ssa.DebugRef:
				case *ssa.Call:
					if b, ok := r.Call.Value.(*ssa.Builtin); !ok || b.Name() != "copy" || r.Call.Args[0] != ssa.Value(x) || r.Call.Args[1] == ssa.Value(x) {
						onlyCopyDst = false
					}
				default:
					onlyCopyDst = false
				}
			}
			if onlyCopyDst {
				return Val{K: kSlice, T: x.Type(), Arr: "0", Off: z, Len: n, Cap: n, P: base.P}
			}
		}
		if base.K != kScalar {
			panic(unsupported("slicing an array that is embedded in a struct (only standalone arrays are modelled)"))
		}
		// standalone arrays live in the element heap of []T at their own reference
		return Val{K: kSlice, T: x.Type(), Arr: base.S, Off: lo, Len: g.idxSub(hi, lo), Cap: g.idxSub(n, lo)}
	}
	panic(unsupported("Slice on %s", x.X.Type()))
}

func (g *Gen) binop(x *ssa.BinOp) Val {
	a, b := g.val(x.X), g.val(x.Y)
	op := x.Op.String()
	t := x.X.Type()
	switch op {
	case "==", "!=":
		e := g.valEq(g.coerce(a, t), g.coerce(b, x.Y.Type()))
		if op == "!=" {
			e = not(e)
		}
		return sv(x.Type(), g.define("cmp", "Bool", e))
	case "<<", ">>":
		return sv(x.Type(), g.define("sh", g.scalarSort(x.Type()), g.intShift(op, a.S, b.S, t, x.Y.Type(), constInt(x.Y))))
	}
	if isString(t) {
		switch op {
		case "+":
			return sv(x.Type(), g.define("cat", "Str", "(scat "+a.S+" "+b.S+")"))
		case "<", "<=", ">", ">=":
			r := g.fresh("strcmp", "Bool")
			g.addAssumption("string ordering comparison is uninterpreted")
			return sv(x.Type(), r)
		}
	}
	if isBool(t) {
		switch op {
		case "&&", "&":
			return sv(x.Type(), and(a.S, b.S))
		case "||", "|":
			return sv(x.Type(), or(a.S, b.S))
		}
	}
	if isFloat(t) {
		r := g.fresh("flt", g.scalarSort(x.Type()))
		g.addAssumption("floating point arithmetic is uninterpreted")
		return sv(x.Type(), r)
	}
	switch op {
	case "<", "<=", ">", ">=":
		return sv(x.Type(), g.define("cmp", "Bool", g.intCmp(op, a.S, b.S, t)))
	}
	if op == "/" || op == "%" {
		if constInt(x.Y) == nil || constInt(x.Y).Sign() == 0 {
			g.oblig("div", g.srcText(x.Pos()), not(eq(b.S, g.intConst(big.NewInt(0), t))), "division by zero", x.Pos(), false)
		}
	}
	term, side := g.intBin(op, a.S, b.S, t, constInt(x.Y))
	if side != "" {
		if g.fc != nil && g.fc.NoOverflow != "" {
			g.addAssumption("no-overflow (machine arithmetic treated as mathematical): " + g.fc.NoOverflow)
		} else {
			g.oblig("overflow", g.srcText(x.Pos()), side, "signed arithmetic does not overflow", x.Pos(), false)
		}
	}
	return sv(x.Type(), g.define("t", g.scalarSort(x.Type()), term))
}

func (g *Gen) unop(x *ssa.UnOp) Val {
	a := g.val(x.X)
	switch x.Op {
	case token.MUL:
		if gl, ok := x.X.(*ssa.Global); ok {
			if v, ok := g.globalConstant(gl); ok {
				return v
			}
		}
		if a.K == kScalar {
			g.nilCheck(a.S, x.Pos(), x.X)
		}
		p := g.ptrOf(a)
		v := g.load(g.heap, p)
		g.loadFacts(v)
		if gl, ok := x.X.(*ssa.Global); ok && v.K == kScalar && g.w.globalNonNilErr(gl) {
			g.addAssumption("package variable " + gl.Name() + " holds the non-nil error it is initialised with (never reassigned: checked by scanning every store in the program)")
			g.assume(g.curReach, not(eq(v.S, "0")))
		}
		return v
	case token.NOT:
		return sv(x.Type(), not(a.S))
	case token.SUB:
		z := g.intConst(big.NewInt(0), x.Type())
		if isFloat(x.Type()) {
			return sv(x.Type(), g.fresh("flt", "Flt"))
		}
		t, side := g.intBin("-", z, a.S, x.Type(), nil)
		if side != "" && (g.fc == nil || g.fc.NoOverflow == "") {
			g.oblig("overflow", g.srcText(x.Pos()), side, "negation does not overflow", x.Pos(), false)
		}
		return sv(x.Type(), t)
	case token.XOR:
		if g.mode != "bv" {
			panic(unsupported("^x needs mode bv"))
		}
		return sv(x.Type(), "(bvnot "+a.S+")")
	case token.ARROW:
		// channel receive: the value received is arbitrary (channels carry wake-ups, tokens and messages whose
		// producers are other goroutines: not modelled); blocking and ordering are not modelled
		g.addAssumption("channel operations (send, receive, select) are treated as scheduling points without effect on verified state: a receive yields an arbitrary value, a select takes any branch; blocking, ordering and termination are not modelled")
		ct := x.X.Type().Underlying().(*types.Chan)
		v := g.freshVal("recv", ct.Elem())
		g.typeFacts(g.curReach, v)
		if x.CommaOk {
			return Val{K: kStruct, T: x.Type(), Fs: []Val{v, sv(boolT, g.fresh("recvok", "Bool"))}}
		}
		return v
	}
	panic(unsupported("unary %s", x.Op))
}

// globalConstant: value of a package-level string / []byte variable that is never reassigned (see World.globalInit).
func (g *Gen) globalConstant(gl *ssa.Global) (Val, bool) {
	if es, ok := g.w.globalMapInit(gl); ok {
		// a map literal that is never updated: a fixed object whose domain and values are exactly the literal's
		mt := gl.Type().Underlying().(*types.Pointer).Elem().Underlying().(*types.Map)
		ref := g.globalRef(gl.Pkg.Pkg.Path() + "." + gl.Name() + "#map")
		if !g.declared["maplit:"+ref] {
			g.declared["maplit:"+ref] = true
			g.addAssumption("package variable " + gl.Name() + " (map literal) is only assigned by its initialiser and never updated (checked by scanning every use in the program); treated as a constant map")
			env := g.baseEnv()
			env.heap = g.heap0
			dom, ln, _, _ := g.mapHeaps(env, mt)
			q := g.qvar()
			var isKey []string
			for _, e := range es {
				k := g.keyCoerce(g.constVal(e.K), mt.Key())
				v := g.coerce(g.constVal(e.V), mt.Elem())
				isKey = append(isKey, eq(q, k.S))
				g.assume("true", sel(dom, ref, k.S))
				got := g.mapLookup(env, ref, mt, k)
				fa, fb := g.flatten(got), g.flatten(v)
				for i := range fa {
					g.assume("true", eq(fa[i], fb[i]))
				}
			}
			g.assume("true", fmt.Sprintf("(forall ((%s %s)) (! (=> (select (select %s %s) %s) %s) :pattern ((select (select %s %s) %s)) :qid maplit_dom))",
				q, g.scalarSort(mt.Key()), dom, ref, q, or(isKey...), dom, ref, q))
			g.assume("true", eq(sel(ln, ref), g.idxConst(int64(len(es)))))
		}
		return sv(gl.Type().Underlying().(*types.Pointer).Elem(), ref), true
	}
	lit, ok := g.w.globalInit(gl)
	if !ok {
		return Val{}, false
	}
	t := gl.Type().Underlying().(*types.Pointer).Elem()
	g.addAssumption("package variable " + gl.Name() + " is only assigned by its initialiser (checked by scanning every store in the program); treated as the constant " + fmt.Sprintf("%q", lit))
	if isString(t) {
		return sv(t, g.strConst(lit)), true
	}
	if isByteSlice(t) {
		ref := g.globalRef(gl.Pkg.Pkg.Path() + "." + gl.Name() + "#data")
		hs := g.heapSort(g.byteSort(), 2)
		eh := g.heapGet(g.heap, "[]uint8", hs)
		for i := 0; i < len(lit) && i < 64; i++ {
			g.assume("true", eq(sel(eh, ref, g.idxConst(int64(i))), g.byteConst(lit[i])))
		}
		z := g.idxConst(0)
		n := g.idxConst(int64(len(lit)))
		return Val{K: kSlice, T: t, Arr: ref, Off: z, Len: n, Cap: n}, true
	}
	return Val{}, false
}

// loadFacts: a value read from the heap satisfies its type's representation invariant.
func (g *Gen) loadFacts(v Val) {
	if g.inQuant > 0 {
		return
	}
	switch v.K {
	case kScalar:
		if v.T == nil {
			return
		}
		if _, ok := intInfoOf(v.T); ok && g.mode == "int" {
			g.assume(g.curReach, g.rangeFact(v.S, v.T))
		}
		switch v.T.Underlying().(type) {
		case *types.Interface:
			g.assume(g.curReach, "(<= "+v.S+" "+g.allocTerm(g.heap)+")")
		case *types.Pointer, *types.Map, *types.Chan, *types.Signature:
			g.assume(g.curReach, "(and (>= "+v.S+" 0) (<= "+v.S+" "+g.allocTerm(g.heap)+"))")
		}
	case kSlice:
		g.typeFacts(g.curReach, v)
	case kStruct:
		for _, f := range v.Fs {
			g.loadFacts(f)
		}
	}
}

func (g *Gen) convert(x *ssa.Convert) Val {
	a := g.val(x.X)
	from, to := x.X.Type(), x.Type()
	_, fi := intInfoOf(from)
	_, ti := intInfoOf(to)
	switch {
	case fi && ti:
		return sv(to, g.define("conv", g.scalarSort(to), g.intConv(a.S, from, to)))
	case isString(from) && isString(to):
		a.T = to
		return a
	case isString(to) && isByteSlice(from):
		// string(b): fresh string with the same bytes
		s := g.fresh("str", "Str")
		g.assume(g.curReach, eq("(slen "+s+")", a.Len))
		k := g.qvar()
		eh := g.heapGet(g.heap, "[]uint8", g.heapSort(g.byteSort(), 2))
		g.assume(g.curReach, fmt.Sprintf("(forall ((%s %s)) (! (=> %s (= (sat %s %s) (select (select %s %s) %s))) :pattern ((sat %s %s))))",
			k, g.idxSort(), and(g.idxLe(g.idxConst(0), k), g.idxLt(k, a.Len)), s, k, eh, a.Arr, g.elemIdx(a.Off, k), s, k))
		return sv(to, s)
	case isByteSlice(to) && isString(from):
		arr := g.newRef("bytes")
		n := "(slen " + a.S + ")"
		hs := g.heapSort(g.byteSort(), 2)
		eh := g.heapGet(g.heap, "[]uint8", hs)
		na := g.fresh("bytesOf", "(Array "+g.idxSort()+" "+g.byteSort()+")")
		k := g.qvar()
		g.assume(g.curReach, fmt.Sprintf("(forall ((%s %s)) (! (=> %s (= (select %s %s) (sat %s %s))) :pattern ((select %s %s))))",
			k, g.idxSort(), and(g.idxLe(g.idxConst(0), k), g.idxLt(k, n)), na, k, a.S, k, na, k))
		g.heapSet(g.heap, "[]uint8", hs, "(store "+eh+" "+arr+" "+na+")")
		z := g.idxConst(0)
		return Val{K: kSlice, T: to, Arr: arr, Off: z, Len: n, Cap: n}
	case isFloat(to) || isFloat(from):
		g.addAssumption("floating point conversion is uninterpreted")
		return g.freshVal("fconv", to)
	case isString(to) && fi:
		g.addAssumption("string(rune) conversion is uninterpreted")
		return g.freshVal("runestr", to)
	}
	if _, ok := to.Underlying().(*types.Pointer); ok {
		a.T = to
		return a
	}
	if b, ok := to.Underlying().(*types.Basic); ok && b.Kind() == types.UnsafePointer {
		if a.K == kPtr {
			panic(unsupported("unsafe.Pointer of interior pointer"))
		}
		a.T = to
		return a
	}
	panic(unsupported("conversion %s -> %s", from, to))
}

func (g *Gen) qvar() string {
	g.nfresh++
	return quote(fmt.Sprintf("k!q%d", g.nfresh))
}

func isByteSlice(t types.Type) bool {
	s, ok := t.Underlying().(*types.Slice)
	if !ok {
		return false
	}
	b, ok := s.Elem().Underlying().(*types.Basic)
	return ok && b.Kind() == types.Uint8
}

func (g *Gen) typeAssert(x *ssa.TypeAssert) Val {
	v := g.val(x.X)
	_, toIface := x.AssertedType.Underlying().(*types.Interface)
	var ok string
	var res Val
	if toIface {
		okc := g.fresh("implements", "Bool")
		g.assume(g.curReach, implies(okc, not(eq(v.S, "0"))))
		ok = okc
		res = sv(x.AssertedType, v.S)
	} else {
		ok = and(not(eq(v.S, "0")), eq("(dyntype "+v.S+")", fmt.Sprint(g.typeTag(x.AssertedType))))
		res = g.unbox(v.S, x.AssertedType)
	}
	if x.CommaOk {
		okd := g.define("taok", "Bool", ok)
		z := g.zero(x.AssertedType)
		fr, fz := g.flatten(res), g.flatten(z)
		var ts []string
		for i := range fr {
			ts = append(ts, ite(okd, fr[i], fz[i]))
		}
		rv, _ := g.unflatten(x.AssertedType, ts)
		return Val{K: kStruct, T: x.Type(), Fs: []Val{rv, sv(boolT, okd)}}
	}
	g.oblig("assert-type", g.srcText(x.Pos()), ok, "type assertion holds", x.Pos(), false)
	return res
}

func (g *Gen) lookup(x *ssa.Lookup) Val {
	m := g.val(x.X)
	if isString(x.X.Type()) {
		i := g.toIdx(g.val(x.Index))
		g.boundsCheck(i, "(slen "+m.S+")", x.Pos())
		return sv(types.Typ[types.Uint8], "(sat "+m.S+" "+i+")")
	}
	mt := x.X.Type().Underlying().(*types.Map)
	k := g.keyCoerce(g.val(x.Index), mt.Key())
	env := g.baseEnv()
	env.heap = g.heap
	v := g.mapLookup(env, m.S, mt, k)
	g.loadFacts(v)
	if x.CommaOk {
		dom, _, _, _ := g.mapHeaps(env, mt)
		ok := and(not(eq(m.S, "0")), sel(dom, m.S, k.S))
		return Val{K: kStruct, T: x.Type(), Fs: []Val{v, sv(boolT, g.define("inmap", "Bool", ok))}}
	}
	return v
}

func (g *Gen) mapUpdate(x *ssa.MapUpdate) {
	m := g.val(x.Map)
	mt := x.Map.Type().Underlying().(*types.Map)
	k := g.keyCoerce(g.val(x.Key), mt.Key())
	v := g.coerce(g.val(x.Value), mt.Elem())
	g.nilCheck(m.S, x.Pos(), x.Map)
	g.frameCheck(Ptr{Prefix: "map:" + g.typeName(mt) + "#dom", Idx: []string{m.S}, T: types.Typ[types.Bool]}, x.Pos())
	env := g.baseEnv()
	env.heap = g.heap
	dom, ln, vals, ls := g.mapHeaps(env, mt)
	base := "map:" + g.typeName(mt)
	ks := g.scalarSort(mt.Key())
	was := sel(dom, m.S, k.S)
	one := g.idxConst(1)
	g.heapSet(g.heap, base+"#len", "(Array Int "+g.idxSort()+")", fmt.Sprintf("(store %s %s %s)", ln, m.S, ite(was, sel(ln, m.S), g.idxAdd(sel(ln, m.S), one))))
	g.heapSet(g.heap, base+"#dom", "(Array Int (Array "+ks+" Bool))", storeN(dom, []string{m.S, k.S}, "true"))
	fv := g.flatten(v)
	for i, l := range ls {
		g.heapSet(g.heap, base+"#val"+l.Path, "(Array Int (Array "+ks+" "+l.Sort+"))", storeN(vals[i], []string{m.S, k.S}, fv[i]))
	}
}

func (g *Gen) mapDelete(m Val, mt *types.Map, k Val) {
	env := g.baseEnv()
	env.heap = g.heap
	dom, ln, _, _ := g.mapHeaps(env, mt)
	base := "map:" + g.typeName(mt)
	ks := g.scalarSort(mt.Key())
	isNil := eq(m.S, "0")
	was := sel(dom, m.S, k.S)
	one := g.idxConst(1)
	newLen := fmt.Sprintf("(store %s %s %s)", ln, m.S, ite(was, g.idxSub(sel(ln, m.S), one), sel(ln, m.S)))
	newDom := storeN(dom, []string{m.S, k.S}, "false")
	g.heapSet(g.heap, base+"#len", "(Array Int "+g.idxSort()+")", ite(isNil, ln, newLen))
	g.heapSet(g.heap, base+"#dom", "(Array Int (Array "+ks+" Bool))", ite(isNil, dom, newDom))
}

// rangeSeenName: name of the ghost "visited keys" set of a map range statement (ordinal in block order).
func (g *Gen) rangeSeenName(r *ssa.Range) string {
	n := 0
	for _, b := range g.fn.Blocks {
		for _, in := range b.Instrs {
			if x, ok := in.(*ssa.Range); ok {
				n++
				if x == r {
					return fmt.Sprintf("$seen:%d", n)
				}
			}
		}
	}
	return "$seen:0"
}

func (g *Gen) next(x *ssa.Next) Val {
	src := g.rangeOver[x.Iter.(*ssa.Range)]
	if x.IsString {
		panic(unsupported("range over string"))
	}
	mt := src.Type().Underlying().(*types.Map)
	m := g.val(src)
	ok := g.fresh("next.ok", "Bool")
	k := g.freshVal("next.k", mt.Key())
	env := g.baseEnv()
	env.heap = g.heap
	dom, _, _, _ := g.mapHeaps(env, mt)
	g.typeFacts(g.curReach, k)
	// each Next yields a key of the map that was not yielded before; when it reports the end, every key of the
	// map has been yielded (ghost set $seen, readable in contracts as rangeseen(k))
	ks := g.scalarSort(mt.Key())
	seenName, seenSort := g.rangeSeenName(x.Iter.(*ssa.Range)), "(Array "+ks+" Bool)"
	seen := g.heapGet(g.heap, seenName, seenSort)
	g.assume(g.curReach, implies(ok, and(not(eq(m.S, "0")), sel(dom, m.S, k.S), not(sel(seen, k.S)))))
	q := g.qvar()
	domM := g.define("rangedom", "(Array "+ks+" Bool)", ite(eq(m.S, "0"), "((as const (Array "+ks+" Bool)) false)", sel(dom, m.S)))
	g.assume(g.curReach, implies(not(ok), fmt.Sprintf("(forall ((%s %s)) (! (=> (select %s %s) (select %s %s)) :pattern ((select %s %s)) :pattern ((select %s %s)) :qid range_done))", q, ks, domM, q, seen, q, domM, q, seen, q)))
	g.heapSet(g.heap, seenName, seenSort, ite(ok, "(store "+seen+" "+k.S+" true)", seen))
	v := g.mapLookup(env, m.S, mt, k)
	g.loadFacts(v)
	g.addAssumption("map iteration: each Next yields a not yet visited key of the map and reports the end only when all keys were visited (order not modelled; keys inserted during the iteration are not modelled)")
	return Val{K: kStruct, T: x.Type(), Fs: []Val{sv(boolT, ok), k, v}}
}

// ---------- return / postconditions ----------

// cover: vacuity guard. The facts assumed so far (preconditions, callee postconditions, loop invariants, axioms)
// must not contradict each other on the way to this point: the query "point reached" must not be unsat.
func (g *Gen) cover(name string) {
	ob := &Oblig{Unit: g.unit, Name: "cover:" + name, Kind: "cover", Guard: g.curReach, Goal: "false", ExpectSat: true,
		Contractual: false, Desc: "this point is reachable under all assumptions made so far (vacuity guard)"}
	if g.fc != nil {
		ob.Props = g.fc.Props
	}
	ob.evIndex = len(g.events)
	g.events = append(g.events, Event{K: evOblig, Ob: ob})
}

func (g *Gen) doReturn(x *ssa.Return) {
	g.retCount++
	g.cover(fmt.Sprintf("ret%d", g.retOrdinal(x)))
	var results []Val
	sig := g.fn.Signature
	for i, r := range x.Results {
		results = append(results, g.coerce(g.val(r), sig.Results().At(i).Type()))
	}
	env := g.localEnv()
	env.results = results
	// named results
	for i := 0; i < sig.Results().Len(); i++ {
		if n := sig.Results().At(i).Name(); n != "" && n != "_" {
			if _, clash := env.vars[n]; !clash {
				env.vars[n] = results[i]
			}
		}
	}
	saveWatch := g.watch
	for i, r := range results {
		g.watchVal(fmt.Sprintf("result.%d", i), r)
	}
	for i, c := range g.fc.Ensures {
		if c.Ret != 0 && c.Ret != g.retOrdinal(x) {
			continue
		}
		goal := g.evalBool(c.Expr, env)
		g.oblig("post", fmt.Sprintf("%s@ret%d", clauseName(c, i), g.retOrdinal(x)), goal, c.Src, x.Pos(), true)
	}
	g.watch = saveWatch
}

func (g *Gen) retOrdinal(x *ssa.Return) int {
	return retOrdinalOf(g.fn, x)
}

// retOrdinalOf: ordinal of a return statement among the function's returns in SOURCE order (position in the file);
// synthetic returns without a position (e.g. the one after a recovered panic) come last, in block order.
func retOrdinalOf(fn *ssa.Function, x *ssa.Return) int {
	var rets []*ssa.Return
	for _, b := range fn.Blocks {
		for _, in := range b.Instrs {
			if r, ok := in.(*ssa.Return); ok {
				rets = append(rets, r)
			}
		}
	}
	sort.SliceStable(rets, func(i, j int) bool {
		pi, pj := rets[i].Pos(), rets[j].Pos()
		if pi.IsValid() != pj.IsValid() {
			return pi.IsValid()
		}
		return pi < pj
	})
	for i, r := range rets {
		if r == x {
			return i + 1
		}
	}
	return 0
}
