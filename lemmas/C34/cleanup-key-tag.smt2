; name: cleanup-key-tag
; solver: cvc5 --strings-exp
; about: map broker, cluster mode: the cleanup registration key P ++ ":cleanup:channels:{" ++ T ++ "}" has hash tag T, the same tag as every data key P ++ infix ++ "{" ++ T ++ "}." ++ ch of the channel (sharded-key-tag), so the scripts that touch data keys and the registration ZSET stay in one slot
(set-option :produce-models true)
(set-logic ALL)
(define-fun tag ((k String)) String
  (let ((i (str.indexof k "{" 0)))
    (ite (< i 0) k
      (let ((j (str.indexof k "}" (+ i 1))))
        (ite (or (< j 0) (= j (+ i 1))) k (str.substr k (+ i 1) (- j i 1)))))))
(declare-const P String)     ; conf.Prefix
(declare-const T String)     ; partition hash tag (itoa(idx) or a precomputed tag)
(assert (not (str.contains P "{")))
(assert (not (= T "")))
(assert (not (str.contains T "{")))
(assert (not (str.contains T "}")))
(assert (not (= (tag (str.++ P ":cleanup:channels:{" T "}")) T)))
(check-sat)
(get-model)
