; name: sharded-key-tag
; solver: cvc5 --strings-exp
; about: sharded PUB/SUB mode: every key/channel of the shape P ++ infix ++ '{' ++ T ++ '}.' ++ rest has hash tag T (the partition tag, non-empty and without braces), for every channel name
(set-option :produce-models true)
(set-logic ALL)
; Redis Cluster hash tag rule (cluster spec): if the key contains "{...}" with at least one character between the
; first "{" and the first following "}", only that substring is hashed; otherwise the whole key.
(define-fun tag ((k String)) String
  (let ((i (str.indexof k "{" 0)))
    (ite (< i 0) k
      (let ((j (str.indexof k "}" (+ i 1))))
        (ite (or (< j 0) (= j (+ i 1))) k (str.substr k (+ i 1) (- j i 1)))))))
(declare-const P String)     ; config.Prefix or messagePrefix
(declare-const infix String) ; ".stream." ".list." ".stream.meta." ".list.meta." ".result." or ""
(declare-const ch String)    ; channel
(declare-const suf String)   ; "" or "." ++ idempotency key
(declare-const T String)     ; partition hash tag (itoa(idx) or a precomputed tag)
(assert (not (str.contains P "{")))
(assert (not (str.contains infix "{")))
(assert (not (= T "")))
(assert (not (str.contains T "{")))
(assert (not (str.contains T "}")))
(assert (not (= (tag (str.++ P infix "{" T "}." ch suf)) T)))
(check-sat)
(get-model)
