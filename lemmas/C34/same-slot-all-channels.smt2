; name: same-slot-all-channels
; solver: cvc5 --strings-exp
; about: the same-slot statement for EVERY channel name, as the property words it (no restriction on the channel): stream key and stream-meta key have equal hash tags
(set-option :produce-models true)
(set-logic ALL)
; Redis Cluster hash tag rule (cluster spec): if the key contains "{...}" with at least one character between the
; first "{" and the first following "}", only that substring is hashed; otherwise the whole key.
(define-fun tag ((k String)) String
  (let ((i (str.indexof k "{" 0)))
    (ite (< i 0) k
      (let ((j (str.indexof k "}" (+ i 1))))
        (ite (or (< j 0) (= j (+ i 1))) k (str.substr k (+ i 1) (- j i 1)))))))
(declare-const P String)     ; config.Prefix or messagePrefix
(declare-const infix String) ; ".stream." ".list." ".stream.meta." ".list.meta." ".result." or ""
(declare-const ch String)    ; channel
(declare-const suf String)   ; "" or "." ++ idempotency key
(declare-const T String)     ; partition hash tag (itoa(idx) or a precomputed tag)
(assert (not (str.contains P "{")))
(assert (not (str.contains infix "{")))
(assert (not (= (tag (str.++ P ".stream.{" ch "}")) (tag (str.++ P ".stream.meta.{" ch "}")))))
(check-sat)
(get-model)
