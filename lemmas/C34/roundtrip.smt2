; name: roundtrip
; solver: cvc5 --strings-exp
; about: extractChannel (as specified by its contract) inverts messageChannelID (as specified by its contract) in all three modes
(set-option :produce-models true)
(set-logic ALL)
; Redis Cluster hash tag rule (cluster spec): if the key contains "{...}" with at least one character between the
; first "{" and the first following "}", only that substring is hashed; otherwise the whole key.
(define-fun tag ((k String)) String
  (let ((i (str.indexof k "{" 0)))
    (ite (< i 0) k
      (let ((j (str.indexof k "}" (+ i 1))))
        (ite (or (< j 0) (= j (+ i 1))) k (str.substr k (+ i 1) (- j i 1)))))))
(declare-const P String)     ; config.Prefix or messagePrefix
(declare-const infix String) ; ".stream." ".list." ".stream.meta." ".list.meta." ".result." or ""
(declare-const ch String)    ; channel
(declare-const suf String)   ; "" or "." ++ idempotency key
(declare-const T String)     ; partition hash tag (itoa(idx) or a precomputed tag)
(assert (not (str.contains P "{")))
(assert (not (str.contains infix "{")))
(declare-const MP String)
(assert (not (str.contains T ".")))
(assert (not (= T "")))
(define-fun trimmed ((id String)) String (ite (str.prefixof MP id) (str.substr id (str.len MP) (- (str.len id) (str.len MP))) id))
(define-fun rt_plain () Bool (= (trimmed (str.++ MP ch)) ch))
(define-fun tc () String (trimmed (str.++ MP "{" ch "}")))
(define-fun rt_cluster () Bool (and (>= (str.len tc) 2) (= (str.at tc 0) "{") (= (str.at tc (- (str.len tc) 1)) "}") (= (str.substr tc 1 (- (str.len tc) 2)) ch)))
(define-fun ts () String (trimmed (str.++ MP "{" T "}." ch)))
(define-fun i () Int (str.indexof ts "." 0))
(define-fun rt_sharded () Bool (and (= (str.at ts 0) "{") (> i 0) (= (str.substr ts (+ i 1) (- (str.len ts) i 1)) ch)))
(assert (not (and rt_plain rt_cluster rt_sharded)))
(check-sat)
(get-model)
