; name: cluster-key-tag
; solver: cvc5 --strings-exp
; about: non-sharded cluster mode: every key/channel of the shape P ++ infix ++ '{' ++ ch ++ '}' ++ suffix (the layouts proved for historyStreamKey, historyListKey, historyMetaKey, resultCacheKey, messageChannelID) has the hash tag 'ch up to its first }' - one value for all of them, hence one slot - provided the channel is non-empty and does not start with '}'
(set-option :produce-models true)
(set-logic ALL)
; Redis Cluster hash tag rule (cluster spec): if the key contains "{...}" with at least one character between the
; first "{" and the first following "}", only that substring is hashed; otherwise the whole key.
(define-fun tag ((k String)) String
  (let ((i (str.indexof k "{" 0)))
    (ite (< i 0) k
      (let ((j (str.indexof k "}" (+ i 1))))
        (ite (or (< j 0) (= j (+ i 1))) k (str.substr k (+ i 1) (- j i 1)))))))
(declare-const P String)     ; config.Prefix or messagePrefix
(declare-const infix String) ; ".stream." ".list." ".stream.meta." ".list.meta." ".result." or ""
(declare-const ch String)    ; channel
(declare-const suf String)   ; "" or "." ++ idempotency key
(declare-const T String)     ; partition hash tag (itoa(idx) or a precomputed tag)
(assert (not (str.contains P "{")))
(assert (not (str.contains infix "{")))
(assert (not (= ch "")))
(assert (not (str.prefixof "}" ch)))
(define-fun chTag () String (ite (str.contains ch "}") (str.substr ch 0 (str.indexof ch "}" 0)) ch))
(assert (not (= (tag (str.++ P infix "{" ch "}" suf)) chTag)))
(check-sat)
(get-model)
