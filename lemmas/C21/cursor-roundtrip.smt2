; name: cursor-roundtrip
; solver: cvc5 --strings-exp
; about: an ordered-state cursor made by MakeOrderedCursor(score, key) = score ++ NUL ++ key from a NUL-free score (a decimal numeral) and ANY key (NUL bytes allowed) is parsed back by parseOrderedCursor into exactly that score and key. Premises are the contracts proved on the code: Make's layout, and parse = split at the first NUL (clauses `split`/`none`).
(set-option :produce-models true)
(set-logic ALL)
(declare-const s String) (declare-const k String)
(define-fun nul () String "\u{0}")
(assert (not (str.contains s nul)))
(define-fun c () String (str.++ s nul k))
(define-fun i () Int (str.indexof c nul 0))
; parse: first NUL at i (i >= 0 here), score = c[:i], key = c[i+1:]
(assert (not (and (= i (str.len s)) (= (str.substr c 0 i) s) (= (str.substr c (+ i 1) (- (str.len c) (+ i 1))) k))))
(check-sat)
