; name: mapstate-key-tail-injective
; solver: cvc5 --strings-exp
; about: (part 2 of 2: the optional fields) the tail of the mapStateKey single-flight key is [,asc:1][,cached:1][,rev_offset:<O>,<NE>,rev_epoch:<epoch>]. Equal tails imply equal direction, cache flag and revision. O stands for FormatUint(revision offset), NE for itoa(len(epoch)): decimal numerals, injective, free of ':' and ','.
(set-option :produce-models true)
(set-logic ALL)
(declare-const ep1 String) (declare-const ep2 String)
(declare-const NE1 String) (declare-const NE2 String) (declare-const O1 String) (declare-const O2 String)
(declare-const asc1 Bool) (declare-const asc2 Bool) (declare-const cached1 Bool) (declare-const cached2 Bool)
(declare-const hasRev1 Bool) (declare-const hasRev2 Bool)
(define-fun clean ((s String)) Bool (and (not (str.contains s ":")) (not (str.contains s ","))))
(assert (and (clean NE1) (clean NE2) (clean O1) (clean O2)))
(assert (=> (= NE1 NE2) (= (str.len ep1) (str.len ep2))))
(define-fun tail ((asc Bool) (cached Bool) (hasRev Bool) (off String) (NE String) (ep String)) String
  (str.++ (ite asc ",asc:1" "") (ite cached ",cached:1" "") (ite hasRev (str.++ ",rev_offset:" off "," NE ",rev_epoch:" ep) "")))
(assert (= (tail asc1 cached1 hasRev1 O1 NE1 ep1) (tail asc2 cached2 hasRev2 O2 NE2 ep2)))
(assert (not (and (= asc1 asc2) (= cached1 cached2) (= hasRev1 hasRev2) (=> hasRev1 (and (= O1 O2) (= ep1 ep2))))))
(check-sat)
