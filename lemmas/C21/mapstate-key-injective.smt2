; name: mapstate-key-injective
; solver: cvc5 --strings-exp
; about: (part 1 of 2: the mandatory fields) the single-flight key of Node.MapStateRead (mapStateKey) is <NC>,channel:<ch>,<NU>,cursor:<cursor>,limit:<L>,<NK>,key:<key> followed by a tail T of optional fields. Equal keys imply equal channel, cursor, limit and key AND equal tails (part 2, mapstate-key-tail-injective, decodes the tail). Layout as proved on the code (post of mapStateKey, writeSingleFlightKeyField). NC/NU/NK stand for itoa(len(channel/cursor/key)), L for Itoa(limit): decimal numerals, assumed injective and free of ':' and ','.
(set-option :produce-models true)
(set-logic ALL)
(declare-const ch1 String) (declare-const ch2 String)
(declare-const cur1 String) (declare-const cur2 String)
(declare-const k1 String) (declare-const k2 String)
(declare-const T1 String) (declare-const T2 String)
(declare-const NC1 String) (declare-const NC2 String) (declare-const NU1 String) (declare-const NU2 String)
(declare-const NK1 String) (declare-const NK2 String)
(declare-const L1 String) (declare-const L2 String)
(define-fun clean ((s String)) Bool (and (not (str.contains s ":")) (not (str.contains s ","))))
(assert (and (clean NC1) (clean NC2) (clean NU1) (clean NU2) (clean NK1) (clean NK2) (clean L1) (clean L2)))
(assert (=> (= NC1 NC2) (= (str.len ch1) (str.len ch2))))
(assert (=> (= NU1 NU2) (= (str.len cur1) (str.len cur2))))
(assert (=> (= NK1 NK2) (= (str.len k1) (str.len k2))))
(define-fun key ((NC String) (ch String) (NU String) (cur String) (lim String) (NK String) (k String) (T String)) String
  (str.++ NC ",channel:" ch "," NU ",cursor:" cur ",limit:" lim "," NK ",key:" k T))
(assert (= (key NC1 ch1 NU1 cur1 L1 NK1 k1 T1) (key NC2 ch2 NU2 cur2 L2 NK2 k2 T2)))
(assert (not (and (= ch1 ch2) (= cur1 cur2) (= L1 L2) (= k1 k2) (= T1 T2))))
(check-sat)
