; name: mapstream-key-injective
; solver: cvc5 --strings-exp
; about: the single-flight key of Node.MapStreamRead (mapStreamKey) determines the call: equal keys imply equal channel, since position, limit and direction. Key layout as proved on the code (post of mapStreamKey). NC/NE stand for itoa(len(channel/epoch)), O for FormatUint(offset), L for Itoa(limit), R for FormatBool(reverse): assumed injective, numerals free of ':' and ','.
(set-option :produce-models true)
(set-logic ALL)
(declare-const ch1 String) (declare-const ch2 String) (declare-const ep1 String) (declare-const ep2 String)
(declare-const NC1 String) (declare-const NC2 String) (declare-const NE1 String) (declare-const NE2 String)
(declare-const O1 String) (declare-const O2 String) (declare-const L1 String) (declare-const L2 String)
(declare-const R1 String) (declare-const R2 String)
(declare-const hasSince1 Bool) (declare-const hasSince2 Bool)
(define-fun clean ((s String)) Bool (and (not (str.contains s ":")) (not (str.contains s ","))))
(assert (and (clean NC1) (clean NC2) (clean NE1) (clean NE2) (clean O1) (clean O2) (clean L1) (clean L2)))
(assert (=> (= NC1 NC2) (= (str.len ch1) (str.len ch2))))
(assert (=> (= NE1 NE2) (= (str.len ep1) (str.len ep2))))
(assert (or (= R1 "true") (= R1 "false")))
(assert (or (= R2 "true") (= R2 "false")))
(define-fun key ((NC String) (ch String) (hasSince Bool) (off String) (NE String) (ep String) (lim String) (rev String)) String
  (str.++ NC ",channel:" ch (ite hasSince (str.++ ",since_offset:" off "," NE ",since_epoch:" ep) "") ",limit:" lim ",reverse:" rev))
(assert (= (key NC1 ch1 hasSince1 O1 NE1 ep1 L1 R1) (key NC2 ch2 hasSince2 O2 NE2 ep2 L2 R2)))
(assert (not (and (= ch1 ch2) (= hasSince1 hasSince2) (=> hasSince1 (and (= O1 O2) (= ep1 ep2))) (= L1 L2) (= R1 R2))))
(check-sat)
